module verif

go 1.23

require github.com/antchfx/xpath v0.0.0

replace github.com/antchfx/xpath => /repo
