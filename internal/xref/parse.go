package xref

import (
	"fmt"
	"strings"
	"unicode/utf8"
)

// The reference tokenizer and parser, written from the XPath 1.0 recommendation
// (section 3.7 lexical structure, productions [1]-[39]), plus the one extension
// the engine documents: a parenthesised, comma separated list of steps after '/'.

type lexKind int

const (
	lEOF  lexKind = iota
	lName         // QName, NCName:*, axis name, function name, node type (role decided by the parser)
	lNumber
	lString
	lOp    // and or div mod (operator names, decided by the lexer's disambiguation rule)
	lPunct // everything else
)

type lexTok struct {
	k      lexKind
	s      string // text (for strings: the value without quotes)
	pos    int
	spaceB bool // whitespace before
	nextLP bool // next non-space char is '('
	nextCC bool // next non-space chars are '::'
}

type ParseError struct {
	Pos int
	Msg string
}

func (e *ParseError) Error() string { return fmt.Sprintf("xref: parse error at %d: %s", e.Pos, e.Msg) }

func isNameStart(r rune) bool {
	return r == '_' || (r >= 'a' && r <= 'z') || (r >= 'A' && r <= 'Z') || r >= 0x80
}
func isNameChar(r rune) bool {
	return isNameStart(r) || r == '-' || r == '.' || (r >= '0' && r <= '9')
}
func isDigitB(b byte) bool { return b >= '0' && b <= '9' }
func isSpaceB(b byte) bool { return b == ' ' || b == '\t' || b == '\n' || b == '\r' }

// Lex splits src into tokens, applying the disambiguation rules of section 3.7.
func Lex(src string) ([]lexTok, error) {
	var out []lexTok
	i := 0
	skip := func() bool {
		st := i
		for i < len(src) && isSpaceB(src[i]) {
			i++
		}
		return i > st
	}
	peekAfterSpace := func(j int) string {
		for j < len(src) && isSpaceB(src[j]) {
			j++
		}
		return src[j:]
	}
	operatorContext := func() bool {
		// "If there is a preceding token and the preceding token is not one of @, ::, (, [, , or an Operator"
		if len(out) == 0 {
			return false
		}
		p := out[len(out)-1]
		if p.k == lOp {
			return false
		}
		if p.k == lPunct {
			switch p.s {
			case "@", "::", "(", "[", ",", "/", "//", "|", "+", "-", "=", "!=", "<", "<=", ">", ">=", "*op", "$":
				return false
			}
		}
		return true
	}
	for {
		sp := skip()
		if i >= len(src) {
			out = append(out, lexTok{k: lEOF, pos: i, spaceB: sp})
			return out, nil
		}
		c := src[i]
		st := i
		emit := func(k lexKind, s string) {
			out = append(out, lexTok{k: k, s: s, pos: st, spaceB: sp})
		}
		switch {
		case c == '"' || c == '\'':
			end := strings.IndexByte(src[i+1:], c)
			if end < 0 {
				return nil, &ParseError{i, "unclosed string literal"}
			}
			emit(lString, src[i+1:i+1+end])
			i += end + 2
		case isDigitB(c) || (c == '.' && i+1 < len(src) && isDigitB(src[i+1])):
			for i < len(src) && isDigitB(src[i]) {
				i++
			}
			if i < len(src) && src[i] == '.' {
				i++
				for i < len(src) && isDigitB(src[i]) {
					i++
				}
			}
			emit(lNumber, src[st:i])
		case c == '.':
			if strings.HasPrefix(src[i:], "..") {
				emit(lPunct, "..")
				i += 2
			} else {
				emit(lPunct, ".")
				i++
			}
		case c == '/':
			if strings.HasPrefix(src[i:], "//") {
				emit(lPunct, "//")
				i += 2
			} else {
				emit(lPunct, "/")
				i++
			}
		case c == ':':
			if strings.HasPrefix(src[i:], "::") {
				emit(lPunct, "::")
				i += 2
			} else {
				return nil, &ParseError{i, "stray ':'"}
			}
		case c == '!':
			if strings.HasPrefix(src[i:], "!=") {
				emit(lPunct, "!=")
				i += 2
			} else {
				return nil, &ParseError{i, "stray '!'"}
			}
		case c == '<' || c == '>':
			if i+1 < len(src) && src[i+1] == '=' {
				emit(lPunct, src[i:i+2])
				i += 2
			} else {
				emit(lPunct, src[i:i+1])
				i++
			}
		case c == '*':
			if operatorContext() {
				emit(lPunct, "*op")
			} else {
				emit(lPunct, "*")
			}
			i++
		case strings.IndexByte("()[]@,|+-=$", c) >= 0:
			emit(lPunct, src[i:i+1])
			i++
		default:
			r, _ := utf8.DecodeRuneInString(src[i:])
			if !isNameStart(r) {
				return nil, &ParseError{i, fmt.Sprintf("unexpected character %q", r)}
			}
			readNC := func() {
				for i < len(src) {
					r, sz := utf8.DecodeRuneInString(src[i:])
					if !isNameChar(r) {
						break
					}
					i += sz
				}
			}
			readNC()
			if operatorContext() {
				nm := src[st:i]
				switch nm {
				case "and", "or", "mod", "div":
					emit(lOp, nm)
					continue
				}
				return nil, &ParseError{st, "name " + nm + " where an operator is expected"}
			}
			// QName or NCName:*
			if i+1 < len(src) && src[i] == ':' && src[i+1] != ':' {
				if src[i+1] == '*' {
					i += 2
				} else {
					r2, _ := utf8.DecodeRuneInString(src[i+1:])
					if !isNameStart(r2) {
						return nil, &ParseError{i, "malformed qualified name"}
					}
					i++
					readNC()
				}
			}
			t := lexTok{k: lName, s: src[st:i], pos: st, spaceB: sp}
			rest := peekAfterSpace(i)
			t.nextLP = strings.HasPrefix(rest, "(")
			t.nextCC = strings.HasPrefix(rest, "::")
			out = append(out, t)
		}
	}
}

type refParser struct {
	toks []lexTok
	i    int
	src  string
	d    int
}

func (p *refParser) cur() lexTok { return p.toks[p.i] }
func (p *refParser) next()       { p.i++ }
func (p *refParser) isP(s string) bool {
	t := p.cur()
	return t.k == lPunct && t.s == s
}
func (p *refParser) fail(msg string) {
	panic(&ParseError{p.cur().pos, msg})
}
func (p *refParser) expectP(s string) {
	if !p.isP(s) {
		p.fail("expected " + s)
	}
	p.next()
}

// Parse parses an XPath 1.0 expression into the reference AST; parentheses are kept as Group nodes.
func Parse(src string) (e Expr, err error) {
	toks, err := Lex(src)
	if err != nil {
		return nil, err
	}
	p := &refParser{toks: toks, src: src}
	defer func() {
		if x := recover(); x != nil {
			if pe, ok := x.(*ParseError); ok {
				e, err = nil, pe
				return
			}
			panic(x)
		}
	}()
	e = p.expr()
	if p.cur().k != lEOF {
		p.fail("unexpected token " + p.cur().s)
	}
	return e, nil
}

func (p *refParser) expr() Expr {
	p.d++
	if p.d > 5000 {
		p.fail("too deep")
	}
	defer func() { p.d-- }()
	return p.binary(1)
}

var levelOps = map[int][]string{
	1: {"or"}, 2: {"and"}, 3: {"=", "!="}, 4: {"<", "<=", ">", ">="}, 5: {"+", "-"}, 6: {"*op", "div", "mod"},
}

func (p *refParser) opAt(level int) string {
	t := p.cur()
	for _, o := range levelOps[level] {
		switch o {
		case "or", "and", "div", "mod":
			if t.k == lOp && t.s == o {
				return o
			}
		default:
			if t.k == lPunct && t.s == o {
				if o == "*op" {
					return "*"
				}
				return o
			}
		}
	}
	return ""
}

func (p *refParser) binary(level int) Expr {
	if level > 6 {
		return p.unary()
	}
	l := p.binary(level + 1)
	for {
		op := p.opAt(level)
		if op == "" {
			return l
		}
		p.next()
		r := p.binary(level + 1)
		l = Bin{Op: op, L: l, R: r}
	}
}

func (p *refParser) unary() Expr {
	if p.isP("-") {
		p.next()
		p.d++
		if p.d > 5000 {
			p.fail("too deep")
		}
		defer func() { p.d-- }()
		return Neg{X: p.unary()}
	}
	return p.union()
}

func (p *refParser) union() Expr {
	l := p.pathExpr()
	for p.isP("|") {
		p.next()
		r := p.pathExpr()
		l = Bin{Op: "|", L: l, R: r}
	}
	return l
}

func isNodeTypeName(s string) bool {
	switch s {
	case "node", "text", "comment", "processing-instruction":
		return true
	}
	return false
}

func (p *refParser) startsPrimary() bool {
	t := p.cur()
	switch t.k {
	case lString, lNumber:
		return true
	case lPunct:
		return t.s == "$" || t.s == "("
	case lName:
		return t.nextLP && !isNodeTypeName(t.s) && !t.nextCC
	}
	return false
}

func (p *refParser) pathExpr() Expr {
	if p.startsPrimary() {
		prim := p.primary()
		var preds []Expr
		for p.isP("[") {
			preds = append(preds, p.predicate())
		}
		var fe Expr = prim
		if len(preds) > 0 {
			fe = Filter{X: prim, Preds: preds}
		}
		if p.isP("/") {
			p.next()
			return Path{Start: fe, Steps: p.relPath(nil)}
		}
		if p.isP("//") {
			p.next()
			return Path{Start: fe, Steps: p.relPath([]*Step{dslash()})}
		}
		return fe
	}
	return p.locationPath()
}

func dslash() *Step {
	return &Step{Axis: "descendant-or-self", Test: Test{Kind: "node"}, Abbrev: "//"}
}

func (p *refParser) startsStep() bool {
	t := p.cur()
	switch t.k {
	case lName:
		return true
	case lPunct:
		switch t.s {
		case ".", "..", "@", "*":
			return true
		}
	}
	return false
}

func (p *refParser) locationPath() Expr {
	if p.isP("/") {
		p.next()
		if p.startsStep() {
			return Path{Abs: true, Steps: p.relPath(nil)}
		}
		return Path{Abs: true}
	}
	if p.isP("//") {
		p.next()
		return Path{Abs: true, Steps: p.relPath([]*Step{dslash()})}
	}
	return Path{Steps: p.relPath(nil)}
}

func (p *refParser) relPath(steps []*Step) []*Step {
	for {
		steps = append(steps, p.step(len(steps) > 0))
		if p.isP("/") {
			p.next()
			continue
		}
		if p.isP("//") {
			p.next()
			steps = append(steps, dslash())
			continue
		}
		return steps
	}
}

func (p *refParser) predicate() Expr {
	p.expectP("[")
	e := p.expr()
	p.expectP("]")
	return e
}

func (p *refParser) step(allowSeq bool) *Step {
	s := &Step{}
	switch {
	case p.isP("."):
		p.next()
		s.Axis, s.Test, s.Abbrev = "self", Test{Kind: "node"}, "."
		// the recommendation allows no predicate on an abbreviated step; the engine
		// accepts one. The reference follows the recommendation.
		return s
	case p.isP(".."):
		p.next()
		s.Axis, s.Test, s.Abbrev = "parent", Test{Kind: "node"}, ".."
		return s
	case p.isP("(") && allowSeq:
		p.next()
		p.d++
		if p.d > 5000 {
			p.fail("too deep")
		}
		s.Seq = append(s.Seq, p.step(true))
		for p.isP(",") {
			p.next()
			s.Seq = append(s.Seq, p.step(true))
		}
		p.d--
		p.expectP(")")
		return s
	case p.isP("@"):
		p.next()
		s.Axis, s.Abbrev = "attribute", "@"
	case p.cur().k == lName && p.cur().nextCC:
		ax := p.cur().s
		ok := false
		for _, a := range append(AxisNames, "namespace") {
			if a == ax {
				ok = true
			}
		}
		if !ok {
			p.fail("unknown axis " + ax)
		}
		s.Axis = ax
		p.next()
		p.expectP("::")
	default:
		s.Axis, s.Abbrev = "child", "child"
	}
	s.Test = p.nodeTest()
	for p.isP("[") {
		s.Preds = append(s.Preds, p.predicate())
	}
	return s
}

func (p *refParser) nodeTest() Test {
	t := p.cur()
	if t.k == lPunct && t.s == "*" {
		p.next()
		return Test{Kind: "*"}
	}
	if t.k != lName {
		p.fail("expected a node test")
	}
	if t.nextLP {
		if !isNodeTypeName(t.s) {
			p.fail("function call where a node test is expected")
		}
		p.next()
		p.expectP("(")
		tt := Test{Kind: t.s}
		if t.s == "processing-instruction" {
			tt.Kind = "pi"
			if p.cur().k == lString {
				tt.Local = p.cur().s
				p.next()
			}
		}
		p.expectP(")")
		return tt
	}
	p.next()
	if strings.HasSuffix(t.s, ":*") {
		return Test{Kind: "p:*", Prefix: strings.TrimSuffix(t.s, ":*")}
	}
	if k := strings.IndexByte(t.s, ':'); k >= 0 {
		return Test{Kind: "name", Prefix: t.s[:k], Local: t.s[k+1:]}
	}
	return Test{Kind: "name", Local: t.s}
}

func (p *refParser) primary() Expr {
	t := p.cur()
	switch {
	case t.k == lString:
		p.next()
		return Str{V: t.s}
	case t.k == lNumber:
		p.next()
		return Num{Lex: t.s}
	case p.isP("$"):
		p.next()
		if p.cur().k != lName || p.cur().spaceB {
			p.fail("expected a variable name")
		}
		n := p.cur().s
		p.next()
		return Var{Name: n}
	case p.isP("("):
		p.next()
		e := p.expr()
		p.expectP(")")
		return Group{X: e}
	case t.k == lName:
		p.next()
		p.expectP("(")
		c := Call{Name: t.s}
		if !p.isP(")") {
			for {
				c.Args = append(c.Args, p.expr())
				if p.isP(",") {
					p.next()
					continue
				}
				break
			}
		}
		p.expectP(")")
		return c
	}
	p.fail("expected a primary expression")
	return nil
}

// ---------- static validity beyond the grammar (function table, arities) ----------

// FuncArity lists the functions the engine documents, with the argument counts
// XPath (1.0, or 2.0 for the 2.0 functions) allows. max -1 = unbounded.
var FuncArity = map[string][2]int{
	"boolean": {1, 1}, "ceiling": {1, 1}, "concat": {2, -1}, "contains": {2, 2}, "count": {1, 1},
	"ends-with": {2, 2}, "false": {0, 0}, "floor": {1, 1}, "last": {0, 0}, "local-name": {0, 1},
	"lower-case": {1, 1}, "matches": {2, 2}, "name": {0, 1}, "namespace-uri": {0, 1},
	"normalize-space": {0, 1}, "not": {1, 1}, "number": {0, 1}, "position": {0, 0},
	"replace": {3, 3}, "reverse": {1, 1}, "round": {1, 1}, "starts-with": {2, 2}, "string": {0, 1},
	"string-join": {2, 2}, "string-length": {0, 1}, "substring": {2, 3}, "substring-after": {2, 2},
	"substring-before": {2, 2}, "sum": {1, 1}, "translate": {3, 3}, "true": {0, 0},
}

// Walk calls f on e and every sub-expression (including predicates and steps' predicates).
func Walk(e Expr, f func(Expr)) {
	if e == nil {
		return
	}
	f(e)
	switch x := e.(type) {
	case Bin:
		Walk(x.L, f)
		Walk(x.R, f)
	case Neg:
		Walk(x.X, f)
	case Group:
		Walk(x.X, f)
	case Call:
		for _, a := range x.Args {
			Walk(a, f)
		}
	case Filter:
		Walk(x.X, f)
		for _, p := range x.Preds {
			Walk(p, f)
		}
	case Path:
		Walk(x.Start, f)
		for _, s := range x.Steps {
			walkStep(s, f)
		}
	case *Path:
		Walk(*x, f)
	}
}

func walkStep(s *Step, f func(Expr)) {
	for _, a := range s.Seq {
		walkStep(a, f)
	}
	for _, p := range s.Preds {
		Walk(p, f)
	}
}

// WalkSteps calls f on every step of every path in e.
func WalkSteps(e Expr, f func(*Step)) {
	var ws func(s *Step)
	ws = func(s *Step) {
		f(s)
		for _, a := range s.Seq {
			ws(a)
		}
	}
	Walk(e, func(x Expr) {
		switch p := x.(type) {
		case Path:
			for _, s := range p.Steps {
				ws(s)
			}
		}
	})
}

// Validate reports the first static error of a parsed expression: unknown function, wrong arity.
func Validate(e Expr) error {
	var err error
	Walk(e, func(x Expr) {
		if c, ok := x.(Call); ok && err == nil {
			ar, known := FuncArity[c.Name]
			if !known {
				err = fmt.Errorf("xref: unknown function %s", c.Name)
			} else if len(c.Args) < ar[0] || (ar[1] >= 0 && len(c.Args) > ar[1]) {
				err = fmt.Errorf("xref: %s() called with %d arguments", c.Name, len(c.Args))
			}
		}
	})
	return err
}
