// Package xref is the oracle: an independent executable XPath 1.0 semantics over
// xdoc documents (AST, evaluator, tokenizer and parser written from the
// recommendation). It shares no code with the engine under observation.
package xref

import (
	"math/rand"
	"strconv"
	"strings"
)

// ---------- AST ----------

type Expr interface{ isExpr() }

type Num struct{ Lex string } // number literal in its lexical form
type Str struct{ V string }
type Bin struct {
	Op   string
	L, R Expr
}
type Neg struct{ X Expr }
type Call struct {
	Name string
	Args []Expr
}
type Group struct{ X Expr } // ( X )
type Filter struct {        // Primary Predicate+
	X     Expr
	Preds []Expr
}
type Var struct{ Name string }
type Path struct {
	Abs   bool
	Start Expr // optional filter-expression start
	Steps []*Step
}
type Step struct {
	Axis   string
	Test   Test
	Preds  []Expr
	Abbrev string  // "", ".", "..", "@", "child" (axis omitted), "//" (descendant-or-self::node() written as //)
	Seq    []*Step // sequence step (a, b): alternatives sharing the same input (Axis == "")
}
type Test struct {
	Kind   string // name, *, node, text, comment, p:*, pi
	Prefix string
	Local  string
}

func (Num) isExpr()    {}
func (Str) isExpr()    {}
func (Bin) isExpr()    {}
func (Neg) isExpr()    {}
func (Call) isExpr()   {}
func (Group) isExpr()  {}
func (Filter) isExpr() {}
func (Var) isExpr()    {}
func (Path) isExpr()   {}

func (t Test) String() string {
	switch t.Kind {
	case "name":
		if t.Prefix != "" {
			return t.Prefix + ":" + t.Local
		}
		return t.Local
	case "*":
		return "*"
	case "p:*":
		return t.Prefix + ":*"
	case "pi":
		if t.Local != "" {
			return "processing-instruction('" + t.Local + "')"
		}
		return "processing-instruction()"
	default:
		return t.Kind + "()"
	}
}

// ---------- tokens ----------

type TokKind int

const (
	TName TokKind = iota // names, axis names, function names, operator names
	TNumber
	TString
	TPunct
)

type Tok struct {
	S  string
	K  TokKind
	Op bool // binary operator occurrence (set by the renderer; drives conventional spacing only)
}

func Prec(op string) int {
	switch op {
	case "or":
		return 1
	case "and":
		return 2
	case "=", "!=":
		return 3
	case "<", "<=", ">", ">=":
		return 4
	case "+", "-":
		return 5
	case "*", "div", "mod":
		return 6
	case "|":
		return 8
	}
	return 0
}

func opTok(op string) Tok {
	switch op {
	case "or", "and", "div", "mod":
		return Tok{S: op, K: TName, Op: true}
	}
	return Tok{S: op, K: TPunct, Op: true}
}

func punct(s string) Tok { return Tok{S: s, K: TPunct} }

func name(s string) Tok { return Tok{S: s, K: TName} }

func strTok(v string) Tok {
	if strings.Contains(v, "'") {
		return Tok{S: `"` + v + `"`, K: TString}
	}
	return Tok{S: "'" + v + "'", K: TString}
}

func testToks(t Test) []Tok {
	switch t.Kind {
	case "name":
		return []Tok{name(t.String())}
	case "*":
		return []Tok{punct("*")}
	case "p:*":
		return []Tok{name(t.Prefix + ":*")}
	case "pi":
		out := []Tok{name("processing-instruction"), punct("(")}
		if t.Local != "" {
			out = append(out, strTok(t.Local))
		}
		return append(out, punct(")"))
	}
	return []Tok{name(t.Kind), punct("("), punct(")")}
}

// operand renders e as an operand of a binary operator with precedence parent,
// adding parentheses exactly where the grammar needs them.
func operand(e Expr, parent int, right bool) []Tok {
	toks := Tokens(e)
	need := false
	switch x := e.(type) {
	case Bin:
		p := Prec(x.Op)
		need = p < parent || (p == parent && right)
	case Neg:
		need = parent > 6
	case Path:
		// a lone "/" next to an operator is read as the start of a path ("/ and x" is the path "/and" followed by x): parenthesise it
		need = x.Abs && len(x.Steps) == 0 && x.Start == nil
	}
	if need {
		return wrap(toks)
	}
	return toks
}

func wrap(t []Tok) []Tok {
	out := []Tok{punct("(")}
	out = append(out, t...)
	return append(out, punct(")"))
}

func stepToks(s *Step) []Tok {
	var out []Tok
	if s.Seq != nil {
		out = append(out, punct("("))
		for i, x := range s.Seq {
			if i > 0 {
				out = append(out, punct(","))
			}
			out = append(out, stepToks(x)...)
		}
		return append(out, punct(")"))
	}
	switch s.Abbrev {
	case ".":
		out = append(out, punct("."))
	case "..":
		out = append(out, punct(".."))
	case "@":
		out = append(out, punct("@"))
		out = append(out, testToks(s.Test)...)
	case "child":
		out = append(out, testToks(s.Test)...)
	default:
		out = append(out, name(s.Axis), punct("::"))
		out = append(out, testToks(s.Test)...)
	}
	for _, p := range s.Preds {
		out = append(out, punct("["))
		out = append(out, Tokens(p)...)
		out = append(out, punct("]"))
	}
	return out
}

// Tokens renders e as the token sequence of its XPath source text (minimal parentheses).
func Tokens(e Expr) []Tok {
	switch x := e.(type) {
	case Num:
		return []Tok{{S: x.Lex, K: TNumber}}
	case Str:
		return []Tok{strTok(x.V)}
	case Var:
		return []Tok{punct("$"), name(x.Name)}
	case Bin:
		p := Prec(x.Op)
		out := operand(x.L, p, false)
		out = append(out, opTok(x.Op))
		return append(out, operand(x.R, p, true)...)
	case Neg:
		out := []Tok{punct("-")}
		switch x.X.(type) {
		case Bin:
			return append(out, wrap(Tokens(x.X))...)
		}
		return append(out, Tokens(x.X)...)
	case Group:
		return wrap(Tokens(x.X))
	case Call:
		out := []Tok{name(x.Name), punct("(")}
		for i, a := range x.Args {
			if i > 0 {
				out = append(out, punct(","))
			}
			out = append(out, Tokens(a)...)
		}
		return append(out, punct(")"))
	case Filter:
		out := Tokens(x.X)
		for _, p := range x.Preds {
			out = append(out, punct("["))
			out = append(out, Tokens(p)...)
			out = append(out, punct("]"))
		}
		return out
	case Path:
		return pathToks(x)
	case *Path:
		return pathToks(*x)
	}
	panic("xref: Tokens: unknown expr")
}

func pathToks(p Path) []Tok {
	var out []Tok
	if p.Start != nil {
		out = append(out, Tokens(p.Start)...)
	}
	needSlash := p.Start != nil
	if p.Abs {
		out = append(out, punct("/"))
		needSlash = false
	}
	for i := 0; i < len(p.Steps); i++ {
		s := p.Steps[i]
		if s.Abbrev == "//" && i+1 < len(p.Steps) && (needSlash || (p.Abs && i == 0)) {
			// "/descendant-or-self::node()/" written as "//"
			if p.Abs && i == 0 {
				out[len(out)-1] = punct("//")
			} else {
				out = append(out, punct("//"))
			}
			needSlash = false
			continue
		}
		if needSlash {
			out = append(out, punct("/"))
		}
		if s.Abbrev == "//" {
			// cannot be abbreviated here: write it out
			out = append(out, name("descendant-or-self"), punct("::"), name("node"), punct("("), punct(")"))
		} else {
			out = append(out, stepToks(s)...)
		}
		needSlash = true
	}
	return out
}

func isNameLike(k TokKind) bool { return k == TName || k == TNumber }

// needSep reports whether two adjacent tokens would lex differently when written without a separator.
func needSep(a, b Tok) bool {
	if isNameLike(a.K) && isNameLike(b.K) {
		return true
	}
	if a.K == TName && (b.S == "-" || b.S == "." || b.S == ".." || b.S == ":" || strings.HasPrefix(b.S, ".")) {
		return true // '-' and '.' are name characters
	}
	if a.K == TNumber && (b.S == "." || b.S == "..") {
		return true
	}
	if (a.S == "." || a.S == "..") && (b.K == TNumber || b.S == "." || b.S == "..") {
		return true
	}
	if a.K == TName && b.S == "::" {
		return false
	}
	// two-character operators must not be formed by accident
	switch a.S + b.S {
	case "<=", ">=", "!=", "//", "::", "..":
		return true
	}
	if a.S == "/" && b.S == "//" || a.S == "//" && b.S == "/" {
		return true
	}
	return false
}

// Join writes the tokens as text. mode "min": no optional whitespace at all;
// "std": conventional spacing (spaces around binary operator tokens and after commas);
// "wide": whitespace (space, tab, newline, seeded by r) between every pair of tokens.
func Join(toks []Tok, mode string, r *rand.Rand) string {
	var sb strings.Builder
	for i, t := range toks {
		if i > 0 {
			prev := toks[i-1]
			switch mode {
			case "min":
				if needSep(prev, t) {
					sb.WriteByte(' ')
				}
			case "wide":
				ws := []string{" ", "  ", "\t", "\n", " \n ", "\r", "\r\n", "\t\r "}
				if r != nil {
					sb.WriteString(ws[r.Intn(len(ws))])
				} else {
					sb.WriteByte(' ')
				}
			default:
				if needSep(prev, t) || stdSpace(toks, i) {
					sb.WriteByte(' ')
				}
			}
		}
		sb.WriteString(t.S)
	}
	return sb.String()
}

// stdSpace: conventional spaces around binary operators and after commas.
func stdSpace(toks []Tok, i int) bool {
	return toks[i-1].S == "," || toks[i].Op || toks[i-1].Op
}

// Render is the conventional source text of e.
func Render(e Expr) string { return Join(Tokens(e), "std", nil) }

// ---------- canonical, fully parenthesised form (mirrors the hook VerifParseTree) ----------

func canonTest(t Test) string {
	switch t.Kind {
	case "node", "text", "comment":
		return t.Kind + "()"
	case "pi":
		if t.Local != "" {
			return "processing-instruction(" + strconv.Quote(t.Local) + ")"
		}
		return "processing-instruction()"
	case "*":
		return "*"
	case "p:*":
		return t.Prefix + ":*"
	}
	return t.String()
}

func canonStep(in string, s *Step) string {
	if s.Seq != nil {
		out := ""
		for i, alt := range s.Seq {
			c := canonStep(in, alt)
			if i == 0 {
				out = c
			} else {
				out = "(" + out + " | " + c + ")"
			}
		}
		return out
	}
	out := in
	if out != "" {
		out += "/"
	}
	out += s.Axis + "::" + canonTest(s.Test)
	for _, p := range s.Preds {
		out += "[" + Canon(p) + "]"
	}
	return out
}

// Canon renders the parse tree the engine's parser is expected to build for e:
// binary operators fully parenthesised, unary minus as multiplication by -1 with
// pairs cancelling, parentheses kept as {group} except around a lone literal.
func Canon(e Expr) string {
	switch x := e.(type) {
	case Num:
		v, _ := strconv.ParseFloat(x.Lex, 64)
		return strconv.FormatFloat(v, 'g', -1, 64)
	case Str:
		return strconv.Quote(x.V)
	case Var:
		return "$" + x.Name
	case Bin:
		return "(" + Canon(x.L) + " " + x.Op + " " + Canon(x.R) + ")"
	case Neg:
		// count the run of minus signs
		n := 1
		inner := x.X
		for {
			if y, ok := inner.(Neg); ok {
				n++
				inner = y.X
				continue
			}
			break
		}
		if n%2 == 0 {
			return Canon(inner)
		}
		return "(" + Canon(inner) + " * -1)"
	case Group:
		if constLike(x.X) {
			return Canon(x.X)
		}
		return "{" + Canon(x.X) + "}"
	case Call:
		var a []string
		for _, y := range x.Args {
			a = append(a, Canon(y))
		}
		return x.Name + "(" + strings.Join(a, ",") + ")"
	case Filter:
		out := Canon(x.X)
		for _, p := range x.Preds {
			out += "[" + Canon(p) + "]"
		}
		return out
	case Path:
		return canonPath(x)
	case *Path:
		return canonPath(*x)
	}
	panic("xref: Canon: unknown expr")
}

// constLike reports whether the engine's parser represents e by a bare constant operand:
// a literal, a parenthesised constant, or a constant under an even number of minus signs.
func constLike(e Expr) bool {
	switch x := e.(type) {
	case Num, Str:
		return true
	case Group:
		return constLike(x.X)
	case Neg:
		if y, ok := x.X.(Neg); ok {
			return constLike(y.X)
		}
	}
	return false
}

func canonPath(p Path) string {
	in := ""
	if p.Start != nil {
		in = Canon(p.Start)
	} else if p.Abs {
		in = "ROOT"
	}
	for _, s := range p.Steps {
		in = canonStep(in, s)
	}
	return in
}
