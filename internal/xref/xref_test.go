package xref_test

import (
	"fmt"
	"math"
	"strings"
	"testing"

	"verif/internal/xdoc"
	"verif/internal/xgen"
	"verif/internal/xref"
)

// The reference evaluator is the trusted base of most checks. These tests validate it
// independently of the engine: (1) conformance vectors whose expectations were derived by hand
// from the XPath 1.0 recommendation (its own examples where it gives some), (2) algebraic laws
// that hold for any correct evaluator, on generated inputs, (3) round trips of the renderer,
// the reference parser and the document serialiser.

const doc1 = `<doc><chapter id="c1" n="1"><title>Intro</title><para>p1</para><para type="warning">p2</para><section><para>p3</para></section></chapter>` +
	`<chapter id="c2" n="2"><title>Body</title><para>10</para><para>x</para><!--note--><para> 12 </para></chapter><appendix><title>App</title></appendix></doc>`

// document order numbers of doc1 (attributes directly after their owner):
// 0 root, 1 doc, 2 chapter#c1, 3 @id, 4 @n, 5 title, 6 "Intro", 7 para, 8 "p1", 9 para, 10 @type, 11 "p2",
// 12 section, 13 para, 14 "p3", 15 chapter#c2, 16 @id, 17 @n, 18 title, 19 "Body", 20 para, 21 "10",
// 22 para, 23 "x", 24 comment, 25 para, 26 " 12 ", 27 appendix, 28 title, 29 "App"

type vec struct {
	ctx  int
	expr string
	want interface{} // []int (ordinals), string, float64, bool
}

var vectors = []vec{
	// location paths (examples of section 2)
	{1, "child::chapter", []int{2, 15}},
	{1, "child::*", []int{2, 15, 27}},
	{2, "child::text()", []int{}},
	{5, "child::text()", []int{6}},
	{2, "child::node()", []int{5, 7, 9, 12}},
	{2, "attribute::id", []int{3}},
	{2, "attribute::*", []int{3, 4}},
	{1, "descendant::para", []int{7, 9, 13, 20, 22, 25}},
	{13, "ancestor::chapter", []int{2}},
	{13, "ancestor-or-self::para", []int{13}},
	{13, "ancestor::*", []int{1, 2, 12}},
	{12, "descendant-or-self::para", []int{13}},
	{7, "self::para", []int{7}},
	{7, "self::title", []int{}},
	{1, "child::chapter/descendant::para", []int{7, 9, 13, 20, 22, 25}},
	{1, "child::*/child::para", []int{7, 9, 20, 22, 25}},
	{7, "/", []int{0}},
	{7, "/descendant::para", []int{7, 9, 13, 20, 22, 25}},
	{1, "child::para[position()=1]", []int{}},
	{2, "child::para[position()=1]", []int{7}},
	{2, "child::para[position()=last()]", []int{9}},
	{2, "child::para[position()=last()-1]", []int{7}},
	{2, "child::para[position()>1]", []int{9}},
	{9, "following-sibling::*[position()=1]", []int{12}},
	{9, "preceding-sibling::*[position()=1]", []int{7}},
	{9, "preceding-sibling::*[2]", []int{5}},
	{0, "/descendant::para[position()=4]", []int{20}},
	{0, "/child::doc/child::chapter[position()=2]/child::para[position()=2]", []int{22}},
	{2, "child::para[attribute::type=\"warning\"]", []int{9}},
	{2, "child::para[attribute::type='warning'][position()=1]", []int{9}},
	{2, "child::para[position()=2][attribute::type='warning']", []int{9}},
	{1, "child::chapter[child::title='Intro']", []int{2}},
	{1, "child::chapter[child::title]", []int{2, 15}},
	{1, "child::*[self::chapter or self::appendix]", []int{2, 15, 27}},
	{1, "child::*[self::chapter or self::appendix][position()=last()]", []int{27}},
	// abbreviations
	{1, "chapter", []int{2, 15}},
	{1, "*", []int{2, 15, 27}},
	{5, "text()", []int{6}},
	{2, "@id", []int{3}},
	{2, "@*", []int{3, 4}},
	{2, "para[1]", []int{7}},
	{2, "para[last()]", []int{9}},
	{1, "*/para", []int{7, 9, 20, 22, 25}},
	{0, "/doc/chapter[2]/para[3]", []int{25}},
	{1, "chapter//para", []int{7, 9, 13, 20, 22, 25}},
	{7, "//para", []int{7, 9, 13, 20, 22, 25}},
	{7, "//section/para", []int{13}},
	{12, ".//para", []int{13}},
	{7, "..", []int{2}},
	{7, "../@id", []int{3}},
	{2, "para[@type=\"warning\"]", []int{9}},
	{1, "chapter[title=\"Intro\"]", []int{2}},
	{1, "chapter[title]", []int{2, 15}},
	{1, "chapter[@id and @n]", []int{2, 15}},
	{1, "chapter[@n > 1]", []int{15}},
	// axes in detail
	{9, "following::*", []int{12, 13, 15, 18, 20, 22, 25, 27, 28}},
	{9, "following::text()", []int{14, 19, 21, 23, 26, 29}},
	{20, "preceding::*", []int{2, 5, 7, 9, 12, 13, 18}},
	{20, "preceding::para", []int{7, 9, 13}},
	{20, "preceding::para[1]", []int{13}},
	{20, "(preceding::para)[1]", []int{7}},
	{20, "ancestor::*[1]", []int{15}},
	{20, "ancestor-or-self::*[last()]", []int{1}},
	{3, "following::title", []int{5, 18, 28}},
	{3, "preceding::*", []int{}},
	{16, "preceding::title", []int{5}},
	{3, "parent::*", []int{2}},
	{3, "ancestor::*", []int{1, 2}},
	{3, "following-sibling::*", []int{}},
	{3, "descendant-or-self::node()", []int{3}},
	{3, "self::node()", []int{3}},
	{3, "self::*", []int{}},
	{3, "child::node()", []int{}},
	{3, "attribute::*", []int{}},
	{24, "self::comment()", []int{24}},
	{15, "comment()", []int{24}},
	{15, "node()[4]", []int{24}},
	{0, "//comment()/following-sibling::node()", []int{25}},
	{0, "//@id/..", []int{2, 15}},
	{0, "//@*[. = 'warning']/../preceding-sibling::para", []int{7}},
	{0, "//para[. = 'x'] | //title[. = 'App'] | //para[. = 'x']", []int{22, 28}},
	{0, "//section/ancestor::*", []int{1, 2}},
	{0, "//text()[. = 'p3']/ancestor::*[2]", []int{12}},
	// node-set functions
	{0, "count(//para)", 6.0},
	{0, "count(//chapter[1]/para)", 2.0},
	{0, "count(/doc/*)", 3.0},
	{15, "sum(para[1])", 10.0},
	{0, "sum(//@n)", 3.0},
	{0, "sum(//nosuch)", 0.0},
	{2, "name()", "chapter"},
	{3, "name()", "id"},
	{6, "name()", ""},
	{0, "name(//*[3])", "para"}, // the first node in document order that is the third element child of its parent
	{0, "local-name(//@type)", "type"},
	{0, "name(//nosuch)", ""},
	// string functions (examples of section 4.2)
	{0, "string(//chapter[1]/title)", "Intro"},
	{2, "string()", "Introp1p2p3"},
	{0, "string(12)", "12"},
	{0, "string(-0.5)", "-0.5"},
	{0, "string(1 div 0)", "Infinity"},
	{0, "string(-1 div 0)", "-Infinity"},
	{0, "string(0 div 0)", "NaN"},
	{0, "string(1 div 3)", "0.3333333333333333"},
	{0, "string(100000 * 100000)", "10000000000"},
	{0, "string(0.000001)", "0.000001"},
	{0, "string(true())", "true"},
	{0, "string(1 = 2)", "false"},
	{0, "concat('a', 'b', 'c')", "abc"},
	{0, "starts-with('abc', 'ab')", true},
	{0, "starts-with('abc', '')", true},
	{0, "contains('abc', 'bc')", true},
	{0, "contains('abc', 'd')", false},
	{0, "substring-before(\"1999/04/01\",\"/\")", "1999"},
	{0, "substring-after(\"1999/04/01\",\"/\")", "04/01"},
	{0, "substring-after(\"1999/04/01\",\"19\")", "99/04/01"},
	{0, "substring-after('abc', '')", "abc"},
	{0, "substring-before('abc', '')", ""},
	{0, "substring-before('abc', 'x')", ""},
	{0, "substring(\"12345\",2,3)", "234"},
	{0, "substring(\"12345\",2)", "2345"},
	{0, "substring(\"12345\", 1.5, 2.6)", "234"},
	{0, "substring(\"12345\", 0, 3)", "12"},
	{0, "substring(\"12345\", 0 div 0, 3)", ""},
	{0, "substring(\"12345\", 1, 0 div 0)", ""},
	{0, "substring(\"12345\", -42, 1 div 0)", "12345"},
	{0, "substring(\"12345\", -1 div 0, 1 div 0)", ""},
	{0, "substring('12345', 3, 10)", "345"},
	{0, "substring('12345', -2.5, 6)", "123"},
	{0, "substring('12345', 2.5)", "345"},
	{0, "string-length('abc')", 3.0},
	{5, "string-length()", 5.0},
	{0, "normalize-space('  a   b \t c ')", "a b c"},
	{25, "normalize-space()", "12"},
	{0, "translate(\"bar\",\"abc\",\"ABC\")", "BAr"},
	{0, "translate(\"--aaa--\",\"abc-\",\"ABC\")", "AAA"},
	{0, "translate('abc', 'aa', 'xy')", "xbc"},
	{0, "lower-case('AbC')", "abc"},
	{0, "ends-with('abc', 'bc')", true},
	{0, "string-join(//chapter[2]/para, ',')", "10,x, 12 "},
	// boolean functions and conversions
	{0, "boolean(0)", false},
	{0, "boolean(0 div 0)", false},
	{0, "boolean(-0.1)", true},
	{0, "boolean('')", false},
	{0, "boolean('false')", true},
	{0, "boolean(//para)", true},
	{0, "boolean(//nosuch)", false},
	{0, "not(true())", false},
	{0, "not(//nosuch)", true},
	{0, "true() and false()", false},
	{0, "true() or false()", true},
	{0, "1 and 'a'", true},
	{0, "0 or ''", false},
	// number functions and conversions
	{0, "number('12')", 12.0},
	{0, "number(' 12 ')", 12.0},
	{0, "number('-12.5')", -12.5},
	{0, "number('.5')", 0.5},
	{0, "number('5.')", 5.0},
	{0, "number('1e3')", math.NaN()},
	{0, "number('+5')", math.NaN()},
	{0, "number('')", math.NaN()},
	{0, "number('abc')", math.NaN()},
	{0, "number('Infinity')", math.NaN()},
	{0, "number('0x10')", math.NaN()},
	{0, "number('- 5')", math.NaN()},
	{0, "number(true())", 1.0},
	{0, "number(//chapter[2]/para[3])", 12.0},
	{0, "number(//nosuch)", math.NaN()},
	{20, "number()", 10.0},
	{0, "floor(2.6)", 2.0},
	{0, "floor(-2.5)", -3.0},
	{0, "ceiling(2.1)", 3.0},
	{0, "ceiling(-2.5)", -2.0},
	{0, "round(2.5)", 3.0},
	{0, "round(-2.5)", -2.0},
	{0, "round(2.4)", 2.0},
	{0, "5 mod 2", 1.0},
	{0, "5 mod -2", 1.0},
	{0, "-5 mod 2", -1.0},
	{0, "-5 mod -2", -1.0},
	{0, "7 div 2", 3.5},
	{0, "1 div 0", math.Inf(1)},
	{0, "-1 div 0", math.Inf(-1)},
	{0, "0 div 0", math.NaN()},
	{0, "2 + 3 * 4", 14.0},
	{0, "(2 + 3) * 4", 20.0},
	{0, "2 - 3 - 4", -5.0},
	{0, "8 div 4 div 2", 1.0},
	{0, "-2 + 3", 1.0},
	{0, "- - 2", 2.0},
	{0, "1 + 'a'", math.NaN()},
	{0, "'3' * '4'", 12.0},
	{0, "//chapter[2]/para[1] + 1", 11.0},
	// comparisons (section 3.4)
	{0, "//para = 'x'", true},
	{0, "//para != 'x'", true},
	{0, "//chapter[2]/para[2] != 'x'", false},
	{0, "//nosuch = 'x'", false},
	{0, "//nosuch != 'x'", false},
	{0, "//para = 10", true},
	{0, "//para > 11", true},
	{0, "//para > 12", false},
	{0, "11 < //para", true},
	{0, "//para < 'abc'", false},
	{0, "//chapter[2]/para = //chapter[2]/para", true},
	{0, "//chapter[1]/para = //chapter[2]/para", false},
	{0, "//chapter[1]/para != //chapter[2]/para", true},
	{0, "//title = //nosuch", false},
	{0, "//title != //nosuch", false},
	{0, "'a' = 'a'", true},
	{0, "'a' != 'a'", false},
	{0, "1 = 1.0", true},
	{0, "'1' = 1", true},
	{0, "'1.0' = 1", true},
	{0, "'1.0' = '1'", false},
	{0, "'abc' = 1", false},
	{0, "'abc' != 1", true},
	{0, "0 div 0 = 0 div 0", false},
	{0, "0 div 0 != 0 div 0", true},
	{0, "0 div 0 < 1", false},
	{0, "1 < 2 = true()", true},
	{0, "1 = 1 = 1", true},
	{0, "2 = 2 = 2", true}, // (2 = 2) = 2 is true() = boolean(2)
	{0, "2 = 2 = 0", false},
	{0, "3 > 2 > 1", false},
	{0, "true() = 1", true},
	{0, "true() = 'a'", true},
	{0, "false() = ''", true},
	{0, "//para = true()", true},
	{0, "//nosuch = false()", true},
	{0, "true() > false()", true},
	// precedence
	{0, "1 or 0 and 0", true},
	{0, "(1 or 0) and 0", false},
	{0, "1 = 1 or 1 = 2 and 1 = 3", true},
	{0, "1 + 2 = 3", true},
	{0, "1 < 2 + 3", true},
	{0, "2 * 3 + 4 * 5", 26.0},
	{0, "10 - 2 * 3", 4.0},
	{0, "-2 * 3", -6.0},
	{0, "count(//title | //para)", 9.0},
	{0, "count(//title | //para) - 1", 8.0},
	{0, "-count(//title)", -3.0},
	{0, "//chapter[2]/para[1] * 2", 20.0},
	{1, "count(chapter) * 2", 4.0},
	{1, "count(*) mod 2", 1.0},
	{1, "count(chapter)div 2", 1.0},
	// filter expressions
	{0, "(//para)[1]", []int{7}},
	{0, "(//para)[last()]", []int{25}},
	{0, "(//para)[position() > 4]", []int{22, 25}},
	{0, "(//para)[. = 'x' or . = 'p1']", []int{7, 22}},
	{0, "(//para)[. != 'x'][. > 9]", []int{20, 25}},
	{0, "(//chapter)[2]/para[1]", []int{20}},
	{0, "(//chapter/para)[3]", []int{20}},
	{0, "//chapter/para[3]", []int{25}},
	{0, "(//section | //appendix)/title", []int{28}},
	{0, "(//section | //appendix)//text()", []int{14, 29}},
	{0, "reverse(//title)", []int{28, 18, 5}},
	// regex functions (defined by Go's regexp)
	{0, "matches('abracadabra', 'bra')", true},
	{0, "matches('abracadabra', '^a.*a$')", true},
	{0, "matches('abracadabra', '^bra')", false},
	{0, "replace('abracadabra', 'bra', '*')", "a*cada*"},
	{0, "replace('abracadabra', 'a(.)', 'a$1$1')", "abbraccaddabbra"},
	{0, "replace('darted', '^(.*?)d(.*)$', '$1c$2')", "carted"},
	{0, "replace('abcd', '(ab)|(a)', '[1=$1][2=$2]')", "[1=ab][2=]cd"},
	{0, "replace('ab', '(a)(b)', '$2$1$3')", "ba"},
	{0, "replace('ab', '(a)', '$10')", "a0b"},
}

func sameF(a, b float64) bool {
	if math.IsNaN(a) || math.IsNaN(b) {
		return math.IsNaN(a) && math.IsNaN(b)
	}
	return a == b
}

func TestConformanceVectors(t *testing.T) {
	d := xdoc.MustParseXML(doc1, false)
	if len(d.Nodes) != 30 {
		t.Fatalf("doc1 has %d nodes, the vectors assume 30", len(d.Nodes))
	}
	for _, v := range vectors {
		e, err := xref.Parse(v.expr)
		if err != nil {
			t.Errorf("%q: parse: %v", v.expr, err)
			continue
		}
		got, oof := xref.SafeEval(e, xref.NewCtx(d.Nodes[v.ctx]))
		if oof != "" {
			t.Errorf("%q: out of fragment: %s", v.expr, oof)
			continue
		}
		switch w := v.want.(type) {
		case []int:
			ns, ok := got.(xref.NodeSet)
			var g []int
			for _, n := range ns {
				g = append(g, n.Ord)
			}
			if !ok || fmt.Sprint(g) != fmt.Sprint(w) && !(len(g) == 0 && len(w) == 0) {
				t.Errorf("ctx %d %q: got %v want %v", v.ctx, v.expr, g, w)
			}
		case float64:
			f, ok := got.(float64)
			if !ok || !sameF(f, w) {
				t.Errorf("ctx %d %q: got %v want %v", v.ctx, v.expr, got, w)
			}
		default:
			if got != v.want {
				t.Errorf("ctx %d %q: got %#v want %#v", v.ctx, v.expr, got, v.want)
			}
		}
	}
	t.Logf("%d conformance vectors", len(vectors))
}

func ords(ns xref.NodeSet) string {
	var sb strings.Builder
	for _, n := range ns {
		fmt.Fprintf(&sb, "%d ", n.Ord)
	}
	return sb.String()
}

func evalNS(t *testing.T, e xref.Expr, n *xdoc.Node) xref.NodeSet {
	v, oof := xref.SafeEval(e, xref.NewCtx(n))
	if oof != "" {
		t.Fatalf("out of fragment: %s", oof)
	}
	return v.(xref.NodeSet)
}

// Algebraic laws over generated documents and paths (the reference alone).
func TestAlgebraicLaws(t *testing.T) {
	checked := 0
	for i := 0; i < 400; i++ {
		g := xgen.New(1, int64(i))
		d := g.Tree(xgen.DefaultTree())
		for k := 0; k < 10; k++ {
			n := d.Nodes[g.Intn(len(d.Nodes))]
			a := g.FreePath(1+g.Intn(3), xgen.Names)
			b := g.FreePath(1+g.Intn(3), xgen.Names)
			// A|B = B|A, A|A = A, count(A) = |A|
			ab := evalNS(t, xref.Bin{Op: "|", L: a, R: b}, n)
			ba := evalNS(t, xref.Bin{Op: "|", L: b, R: a}, n)
			aa := evalNS(t, xref.Bin{Op: "|", L: a, R: a}, n)
			an := evalNS(t, a, n)
			if ords(ab) != ords(ba) || ords(aa) != ords(an) {
				t.Fatalf("union laws fail for %s , %s", xref.Render(a), xref.Render(b))
			}
			if c, _ := xref.SafeEval(xref.Call{Name: "count", Args: []xref.Expr{a}}, xref.NewCtx(n)); c.(float64) != float64(len(an)) {
				t.Fatalf("count law fails for %s", xref.Render(a))
			}
			// document order, no duplicates
			for j := 1; j < len(an); j++ {
				if an[j-1].Ord >= an[j].Ord {
					t.Fatalf("not sorted/unique: %s", xref.Render(a))
				}
			}
			// abbreviations equal their expansions
			if ords(evalNS(t, xgen.Expand(a), n)) != ords(an) {
				t.Fatalf("expansion differs: %s", xref.Render(a))
			}
			// A[true()] = A, A[false()] = {} ; de Morgan on predicates
			p, q := g.BoolPred(1, &xgen.Env{Doc: d, Ctx: n}), g.BoolPred(1, &xgen.Env{Doc: d, Ctx: n})
			star := func(pred xref.Expr) xref.Expr {
				return xref.Path{Abs: true, Steps: []*xref.Step{xgen.DSlash(), {Axis: "child", Abbrev: "child", Test: xref.Test{Kind: "*"}, Preds: []xref.Expr{pred}}}}
			}
			l, oof1 := xref.SafeEval(star(xref.Call{Name: "not", Args: []xref.Expr{xref.Bin{Op: "and", L: p, R: q}}}), xref.NewCtx(n))
			r, oof2 := xref.SafeEval(star(xref.Bin{Op: "or", L: xref.Call{Name: "not", Args: []xref.Expr{p}}, R: xref.Call{Name: "not", Args: []xref.Expr{q}}}), xref.NewCtx(n))
			if oof1 == "" && oof2 == "" && ords(l.(xref.NodeSet)) != ords(r.(xref.NodeSet)) {
				t.Fatalf("de Morgan fails for %s / %s", xref.Render(p), xref.Render(q))
			}
			checked++
		}
		// the five axes partition the document: ancestor, descendant, following, preceding, self (non-attribute nodes)
		for _, n := range d.Nodes {
			if n.Kind == xdoc.Attr {
				continue
			}
			seen := map[*xdoc.Node]int{}
			for _, ax := range []string{"ancestor", "descendant", "following", "preceding", "self"} {
				for _, m := range xref.Axis(ax, n) {
					seen[m]++
				}
			}
			for _, m := range d.Nodes {
				want := 1
				if m.Kind == xdoc.Attr {
					want = 0
				}
				if seen[m] != want {
					t.Fatalf("partition law fails at %s for %s (%d)", n.Label(), m.Label(), seen[m])
				}
			}
		}
	}
	t.Logf("%d law instances", checked)
}

// Round trips: Parse(Render(ast)) has the same canonical form as ast rendered with explicit
// groups; whitespace variants parse alike; ParseXML(XML(doc)) reproduces the document.
func TestRoundTrips(t *testing.T) {
	for i := 0; i < 3000; i++ {
		g := xgen.New(2, int64(i))
		d := g.Tree(xgen.DefaultTree())
		env := &xgen.Env{Doc: d, Ctx: d.Root, Names: xgen.Names}
		var e xref.Expr
		switch i % 6 {
		case 0:
			e = g.PredPath(2, env)
		case 1:
			e = g.PosPath(env, 3)
		case 2:
			e = g.CmpExpr(2, env)
		case 3:
			e = g.NumExpr(4, env)
		case 4:
			e = g.StrFuncTop(3, env)
		default:
			e = xref.Bin{Op: "|", L: g.FreePath(2, xgen.Names), R: g.FreePath(3, xgen.Names)}
		}
		toks := xref.Tokens(e)
		std := xref.Join(toks, "std", nil)
		p1, err := xref.Parse(std)
		if err != nil {
			t.Fatalf("reference parser rejects rendered %q: %v", std, err)
		}
		if err := xref.Validate(p1); err != nil {
			t.Fatalf("validate %q: %v", std, err)
		}
		for _, mode := range []string{"min", "wide"} {
			txt := xref.Join(toks, mode, g.R)
			p2, err := xref.Parse(txt)
			if err != nil {
				t.Fatalf("reference parser rejects %s variant %q of %q: %v", mode, txt, std, err)
			}
			if xref.Canon(p2) != xref.Canon(p1) {
				t.Fatalf("whitespace changes the reference parse: %q vs %q", txt, std)
			}
		}
		// the parsed tree evaluates like the generated tree
		n := d.Nodes[g.Intn(len(d.Nodes))]
		v1, o1 := xref.SafeEval(e, xref.NewCtx(n))
		v2, o2 := xref.SafeEval(p1, xref.NewCtx(n))
		if (o1 == "") != (o2 == "") || (o1 == "" && fmt.Sprint(v1) != fmt.Sprint(v2)) {
			t.Fatalf("render/parse changes the value of %q: %v vs %v", std, v1, v2)
		}
		// documents
		d2, err := xdoc.ParseXML(d.XML(), d.HasNS)
		if err != nil || d2.XML() != d.XML() || len(d2.Nodes) != len(d.Nodes) {
			t.Fatalf("document round trip fails for %s", d.XML())
		}
	}
	for i := 0; i < 300; i++ {
		d := xgen.New(3, int64(i)).NSTree(true)
		d2, err := xdoc.ParseXML(d.XML(), true)
		if err != nil || d2.XML() != d.XML() || len(d2.Nodes) != len(d.Nodes) {
			t.Fatalf("namespace document round trip fails for %s", d.XML())
		}
		for k, n := range d.Nodes {
			if m := d2.Nodes[k]; m.NS != n.NS || m.Prefix != n.Prefix || m.Name != n.Name || m.Kind != n.Kind {
				t.Fatalf("namespace document round trip changes node %d of %s", k, d.XML())
			}
		}
	}
}

func TestRejections(t *testing.T) {
	for _, s := range []string{"", "a b", "a]", "a)", "a[", "(a", "a/", "//", "a//", "a |", "| a", "1 +", "a[1", "'abc", "f(", "f(1,", "f(1 2)", "p::a", ":a", "a:", "a: b",
		"sideways::a", "@", "@@a", "a/[1]", "1 2", "a and", "and and", "$", "a,b", "a/(b", "..[1]", ".[1]", "!a", "a ! = b", "a = = b", "/ and a", "a::b::c", "text(", "node(1)", "*:a", "a:*:b"} {
		if e, err := xref.Parse(s); err == nil {
			t.Errorf("reference parser accepts %q as %s", s, xref.Canon(e))
		}
	}
	for _, s := range []string{"nosuch(1)", "count()", "not()", "contains('a')", "substring('a')", "translate('a','b')", "true(1)", "concat('a')", "position(1)"} {
		e, err := xref.Parse(s)
		if err != nil {
			t.Errorf("%q should parse", s)
			continue
		}
		if xref.Validate(e) == nil {
			t.Errorf("validator accepts %q", s)
		}
	}
	for _, s := range []string{"/", "a", "a/b", "//a", "a//b", ".", "..", "@a", "a[1]", "a[b][c]", "(a)", "(a)[1]", "(a)/b", "f()/a", "a | b", "-a", "--a", "- - a", "a - -1", "1 - 1", "a-1", "a -1",
		"a * b", "* * *", "div div div", "a/*", "*/*", "@*", "child::*", "child::text()", "processing-instruction()", "processing-instruction('x')", "p:a", "p:*", "$x", "$x/a", "a/(b, c)", "a/(b,c)/d",
		"text()", "node()", "comment()", "a[text()]", "1", "1.", ".5", "'s'", "\"s\"", "a and b", "and", "and and and", "or or or", "mod mod mod", "a[. = 1]", "a[.. = 1]", "count(a) div 2", "(/) and a", "/*", "/ *"} {
		if _, err := xref.Parse(s); err != nil {
			t.Errorf("reference parser rejects %q: %v", s, err)
		}
	}
}
