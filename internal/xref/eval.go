package xref

import (
	"fmt"
	"math"
	"regexp"
	"sort"
	"strconv"
	"strings"

	"verif/internal/xdoc"
)

// ---------- values ----------

// NodeSet is an ordered (document order), duplicate-free slice of nodes, except
// where a function defines another order (reverse()).
type NodeSet []*xdoc.Node

// Ctx is the XPath evaluation context.
type Ctx struct {
	Node  *xdoc.Node
	Pos   int
	Size  int
	NS    map[string]string // prefix -> URI for name tests
	UseNS bool              // match prefixed name tests by namespace URI (map given and navigator exposes URIs)
}

func NewCtx(n *xdoc.Node) *Ctx { return &Ctx{Node: n, Pos: 1, Size: 1} }

// OutOfFragment is raised (as a panic) when an expression leaves the fragment a
// property quantifies over; such cases are counted as skipped, never compared.
type OutOfFragment struct{ Why string }

func (e OutOfFragment) Error() string { return "xref: out of fragment: " + e.Why }

// SafeEval evaluates e and converts an OutOfFragment panic into a reason string.
func SafeEval(e Expr, c *Ctx) (v interface{}, oof string) {
	defer func() {
		if x := recover(); x != nil {
			if o, ok := x.(OutOfFragment); ok {
				v, oof = nil, o.Why
				return
			}
			panic(x)
		}
	}()
	return Eval(e, c), ""
}

func SortUniq(ns NodeSet) NodeSet {
	out := append(NodeSet(nil), ns...)
	sort.SliceStable(out, func(i, j int) bool { return out[i].Ord < out[j].Ord })
	w := 0
	for i, n := range out {
		if i == 0 || n != out[i-1] {
			out[w] = n
			w++
		}
	}
	return out[:w]
}

// ---------- axes ----------

func descendants(n *xdoc.Node, out *NodeSet) {
	for _, c := range n.Children {
		*out = append(*out, c)
		descendants(c, out)
	}
}

func isAncestorOf(a, n *xdoc.Node) bool {
	for p := n.Parent; p != nil; p = p.Parent {
		if p == a {
			return true
		}
	}
	return false
}

var AxisNames = []string{"ancestor", "ancestor-or-self", "attribute", "child", "descendant", "descendant-or-self",
	"following", "following-sibling", "parent", "preceding", "preceding-sibling", "self"}

func IsReverseAxis(a string) bool {
	switch a {
	case "ancestor", "ancestor-or-self", "preceding", "preceding-sibling":
		return true
	}
	return false
}

// Axis returns the nodes on the axis of n in proximity order.
func Axis(axis string, n *xdoc.Node) NodeSet {
	var out NodeSet
	switch axis {
	case "self":
		out = NodeSet{n}
	case "child":
		if n.Kind != xdoc.Attr {
			out = append(out, n.Children...)
		}
	case "attribute":
		if n.Kind == xdoc.Element {
			out = append(out, n.Attrs...)
		}
	case "parent":
		if n.Parent != nil {
			out = NodeSet{n.Parent}
		}
	case "ancestor", "ancestor-or-self":
		if axis == "ancestor-or-self" {
			out = append(out, n)
		}
		for p := n.Parent; p != nil; p = p.Parent {
			out = append(out, p)
		}
	case "descendant", "descendant-or-self":
		if axis == "descendant-or-self" {
			out = append(out, n)
		}
		if n.Kind != xdoc.Attr {
			descendants(n, &out)
		}
	case "following-sibling":
		if n.Kind != xdoc.Attr && n.Parent != nil {
			out = append(out, n.Parent.Children[n.Idx+1:]...)
		}
	case "preceding-sibling":
		if n.Kind != xdoc.Attr && n.Parent != nil {
			for i := n.Idx - 1; i >= 0; i-- {
				out = append(out, n.Parent.Children[i])
			}
		}
	case "following":
		// every node after n in document order that is neither a descendant of n nor an attribute
		for _, m := range n.Doc.Nodes {
			if m.Ord > n.Ord && m.Kind != xdoc.Attr && !isAncestorOf(n, m) {
				out = append(out, m)
			}
		}
	case "preceding":
		for i := len(n.Doc.Nodes) - 1; i >= 0; i-- {
			m := n.Doc.Nodes[i]
			if m.Ord < n.Ord && m.Kind != xdoc.Attr && !isAncestorOf(m, n) {
				out = append(out, m)
			}
		}
	default:
		panic(OutOfFragment{"axis " + axis})
	}
	return out
}

func principalKind(axis string) xdoc.Kind {
	if axis == "attribute" {
		return xdoc.Attr
	}
	return xdoc.Element
}

func (c *Ctx) match(axis string, t Test, n *xdoc.Node) bool {
	switch t.Kind {
	case "node":
		return true
	case "text":
		return n.Kind == xdoc.Text
	case "comment":
		return n.Kind == xdoc.Comment
	case "pi":
		return false // the harness document model has no processing instructions
	case "*":
		return n.Kind == principalKind(axis)
	case "p:*":
		return n.Kind == principalKind(axis) && c.prefixMatch(t.Prefix, n)
	case "name":
		return n.Kind == principalKind(axis) && n.Name == t.Local && c.prefixMatch(t.Prefix, n)
	}
	panic("xref: bad node test " + t.Kind)
}

func (c *Ctx) prefixMatch(prefix string, n *xdoc.Node) bool {
	if c.UseNS && prefix != "" {
		return n.NS == c.NS[prefix]
	}
	return n.Prefix == prefix
}

// ---------- evaluation ----------

func (c *Ctx) sub(n *xdoc.Node, pos, size int) *Ctx {
	return &Ctx{Node: n, Pos: pos, Size: size, NS: c.NS, UseNS: c.UseNS}
}

func Eval(e Expr, c *Ctx) interface{} {
	switch x := e.(type) {
	case Num:
		v, err := strconv.ParseFloat(x.Lex, 64)
		if err != nil {
			panic(err)
		}
		return v
	case Str:
		return x.V
	case Var:
		panic(OutOfFragment{"variable"})
	case Neg:
		return -ToNumber(Eval(x.X, c))
	case Group:
		return Eval(x.X, c)
	case Bin:
		return evalBin(x, c)
	case Call:
		return evalCall(x, c)
	case Filter:
		v := Eval(x.X, c)
		ns, ok := v.(NodeSet)
		if !ok {
			panic(OutOfFragment{"predicate on a non-node-set"})
		}
		for _, p := range x.Preds {
			ns = applyPred(ns, p, c)
		}
		return ns
	case Path:
		return evalPath(x, c)
	case *Path:
		return evalPath(*x, c)
	}
	panic(fmt.Sprintf("xref: unknown expr %T", e))
}

// applyPred filters ns, whose order defines the proximity positions.
func applyPred(ns NodeSet, p Expr, c *Ctx) NodeSet {
	var out NodeSet
	for i, n := range ns {
		v := Eval(p, c.sub(n, i+1, len(ns)))
		keep := false
		if f, ok := v.(float64); ok {
			keep = f == float64(i+1)
		} else {
			keep = ToBool(v)
		}
		if keep {
			out = append(out, n)
		}
	}
	return out
}

// EvalStep evaluates one step from the single input node n; the result is in axis order.
func EvalStep(s *Step, n *xdoc.Node, c *Ctx) NodeSet {
	if s.Seq != nil {
		var out NodeSet
		for _, alt := range s.Seq {
			out = append(out, EvalStep(alt, n, c)...)
		}
		return SortUniq(out)
	}
	var cand NodeSet
	for _, m := range Axis(s.Axis, n) {
		if c.match(s.Axis, s.Test, m) {
			cand = append(cand, m)
		}
	}
	for _, p := range s.Preds {
		cand = applyPred(cand, p, c)
	}
	return cand
}

func evalPath(p Path, c *Ctx) interface{} {
	var cur NodeSet
	if p.Start != nil {
		v := Eval(p.Start, c)
		ns, ok := v.(NodeSet)
		if !ok {
			panic(OutOfFragment{"path step on a non-node-set"})
		}
		cur = ns
		if p.Abs {
			panic("xref: path with both Start and Abs")
		}
	} else if p.Abs {
		cur = NodeSet{c.Node.Doc.Root}
	} else {
		cur = NodeSet{c.Node}
	}
	for _, s := range p.Steps {
		var next NodeSet
		for _, n := range cur {
			next = append(next, EvalStep(s, n, c)...)
		}
		cur = SortUniq(next)
	}
	return cur
}

func ToBool(v interface{}) bool {
	switch x := v.(type) {
	case bool:
		return x
	case float64:
		return x != 0 && !math.IsNaN(x)
	case string:
		return x != ""
	case NodeSet:
		return len(x) > 0
	}
	panic("xref: ToBool")
}

func isXSpace(b byte) bool { return b == ' ' || b == '\t' || b == '\n' || b == '\r' }

// StrToNumber implements the XPath 1.0 string -> number conversion:
// optional whitespace, optional '-', Digits ('.' Digits?)? | '.' Digits, optional whitespace.
func StrToNumber(s string) float64 {
	i, j := 0, len(s)
	for i < j && isXSpace(s[i]) {
		i++
	}
	for j > i && isXSpace(s[j-1]) {
		j--
	}
	t := s[i:j]
	k := 0
	if k < len(t) && t[k] == '-' {
		k++
	}
	digits, dot := 0, false
	for ; k < len(t); k++ {
		ch := t[k]
		if ch >= '0' && ch <= '9' {
			digits++
		} else if ch == '.' && !dot {
			dot = true
		} else {
			return math.NaN()
		}
	}
	if digits == 0 {
		return math.NaN()
	}
	v, err := strconv.ParseFloat(t, 64)
	if err != nil {
		return math.NaN()
	}
	return v
}

func ToNumber(v interface{}) float64 {
	switch x := v.(type) {
	case float64:
		return x
	case bool:
		if x {
			return 1
		}
		return 0
	case string:
		return StrToNumber(x)
	case NodeSet:
		return StrToNumber(ToString(x))
	}
	panic("xref: ToNumber")
}

// NumToString is the XPath 1.0 number -> string conversion (no exponent notation).
func NumToString(f float64) string {
	switch {
	case math.IsNaN(f):
		return "NaN"
	case math.IsInf(f, 1):
		return "Infinity"
	case math.IsInf(f, -1):
		return "-Infinity"
	case f == 0:
		return "0"
	}
	return strconv.FormatFloat(f, 'f', -1, 64)
}

func ToString(v interface{}) string {
	switch x := v.(type) {
	case string:
		return x
	case bool:
		if x {
			return "true"
		}
		return "false"
	case float64:
		return NumToString(x)
	case NodeSet:
		if len(x) == 0 {
			return ""
		}
		// first node in document order
		first := x[0]
		for _, n := range x {
			if n.Ord < first.Ord {
				first = n
			}
		}
		return first.StringValue()
	}
	panic("xref: ToString")
}

func cmpNum(op string, a, b float64) bool {
	switch op {
	case "=":
		return a == b
	case "!=":
		return a != b
	case "<":
		return a < b
	case "<=":
		return a <= b
	case ">":
		return a > b
	case ">=":
		return a >= b
	}
	panic("xref: cmpNum op " + op)
}

func compare(op string, l, r interface{}) bool {
	ln, lIsNS := l.(NodeSet)
	rn, rIsNS := r.(NodeSet)
	switch {
	case lIsNS && rIsNS:
		for _, a := range ln {
			for _, b := range rn {
				if compareAtoms(op, a.StringValue(), b.StringValue()) {
					return true
				}
			}
		}
		return false
	case lIsNS:
		switch rv := r.(type) {
		case float64:
			for _, a := range ln {
				if cmpNum(op, StrToNumber(a.StringValue()), rv) {
					return true
				}
			}
			return false
		case string:
			for _, a := range ln {
				if compareAtoms(op, a.StringValue(), rv) {
					return true
				}
			}
			return false
		case bool:
			return compareAtoms(op, ToBool(ln), rv)
		}
	case rIsNS:
		switch lv := l.(type) {
		case float64:
			for _, b := range rn {
				if cmpNum(op, lv, StrToNumber(b.StringValue())) {
					return true
				}
			}
			return false
		case string:
			for _, b := range rn {
				if compareAtoms(op, lv, b.StringValue()) {
					return true
				}
			}
			return false
		case bool:
			return compareAtoms(op, lv, ToBool(rn))
		}
	}
	return compareAtoms(op, l, r)
}

// compareAtoms compares two non-node-set values.
func compareAtoms(op string, l, r interface{}) bool {
	if op == "=" || op == "!=" {
		_, lb := l.(bool)
		_, rb := r.(bool)
		_, lf := l.(float64)
		_, rf := r.(float64)
		switch {
		case lb || rb:
			return (ToBool(l) == ToBool(r)) == (op == "=")
		case lf || rf:
			return cmpNum(op, ToNumber(l), ToNumber(r))
		default:
			return (ToString(l) == ToString(r)) == (op == "=")
		}
	}
	return cmpNum(op, ToNumber(l), ToNumber(r))
}

func evalBin(b Bin, c *Ctx) interface{} {
	switch b.Op {
	case "or":
		if ToBool(Eval(b.L, c)) {
			return true
		}
		return ToBool(Eval(b.R, c))
	case "and":
		if !ToBool(Eval(b.L, c)) {
			return false
		}
		return ToBool(Eval(b.R, c))
	case "=", "!=", "<", "<=", ">", ">=":
		return compare(b.Op, Eval(b.L, c), Eval(b.R, c))
	case "+", "-", "*", "div", "mod":
		l := ToNumber(Eval(b.L, c))
		r := ToNumber(Eval(b.R, c))
		switch b.Op {
		case "+":
			return l + r
		case "-":
			return l - r
		case "*":
			return l * r
		case "div":
			return l / r
		default:
			return math.Mod(l, r)
		}
	case "|":
		l, ok1 := Eval(b.L, c).(NodeSet)
		r, ok2 := Eval(b.R, c).(NodeSet)
		if !ok1 || !ok2 {
			panic(OutOfFragment{"union of a non-node-set"})
		}
		return SortUniq(append(append(NodeSet(nil), l...), r...))
	}
	panic("xref: bad operator " + b.Op)
}

// XRound is XPath round(): round half towards positive infinity.
func XRound(f float64) float64 {
	if math.IsNaN(f) || math.IsInf(f, 0) {
		return f
	}
	return math.Floor(f + 0.5)
}

func argString(c Call, i int, ctx *Ctx) string { return ToString(Eval(c.Args[i], ctx)) }

func need(c Call, min, max int) {
	if len(c.Args) < min || (max >= 0 && len(c.Args) > max) {
		panic(OutOfFragment{fmt.Sprintf("arity of %s/%d", c.Name, len(c.Args))})
	}
}

func nodeSetArg(c Call, i int, ctx *Ctx) NodeSet {
	ns, ok := Eval(c.Args[i], ctx).(NodeSet)
	if !ok {
		panic(OutOfFragment{c.Name + " of a non-node-set"})
	}
	return ns
}

// GoReplace is replace() as the engine documents it: Go's ReplaceAllString where
// $n in the replacement stands for group n (the longest group number that exists).
func GoReplace(re *regexp.Regexp, s, repl string) string {
	var sb strings.Builder
	n := re.NumSubexp()
	for i := 0; i < len(repl); i++ {
		if repl[i] == '$' {
			j := i + 1
			for j < len(repl) && repl[j] >= '0' && repl[j] <= '9' {
				j++
			}
			// longest prefix of the digit run that is a valid group number >= 1
			best := 0
			for k := j; k > i+1; k-- {
				v, _ := strconv.Atoi(repl[i+1 : k])
				if v >= 1 && v <= n && repl[i+1] != '0' {
					best = k
					break
				}
			}
			if best > 0 {
				sb.WriteString("${" + repl[i+1:best] + "}")
				i = best - 1
				continue
			}
		}
		sb.WriteByte(repl[i])
	}
	return re.ReplaceAllString(s, sb.String())
}

func evalCall(c Call, ctx *Ctx) interface{} {
	switch c.Name {
	case "true":
		need(c, 0, 0)
		return true
	case "false":
		need(c, 0, 0)
		return false
	case "not":
		need(c, 1, 1)
		return !ToBool(Eval(c.Args[0], ctx))
	case "boolean":
		need(c, 1, 1)
		return ToBool(Eval(c.Args[0], ctx))
	case "number":
		need(c, 0, 1)
		if len(c.Args) == 0 {
			return ToNumber(NodeSet{ctx.Node})
		}
		return ToNumber(Eval(c.Args[0], ctx))
	case "string":
		need(c, 0, 1)
		if len(c.Args) == 0 {
			return ToString(NodeSet{ctx.Node})
		}
		return ToString(Eval(c.Args[0], ctx))
	case "count":
		need(c, 1, 1)
		return float64(len(nodeSetArg(c, 0, ctx)))
	case "sum":
		need(c, 1, 1)
		s := 0.0
		for _, n := range nodeSetArg(c, 0, ctx) {
			v := StrToNumber(n.StringValue())
			if math.IsNaN(v) {
				panic(OutOfFragment{"sum over a non-numeric node"})
			}
			s += v
		}
		return s
	case "floor":
		need(c, 1, 1)
		return math.Floor(ToNumber(Eval(c.Args[0], ctx)))
	case "ceiling":
		need(c, 1, 1)
		return math.Ceil(ToNumber(Eval(c.Args[0], ctx)))
	case "round":
		need(c, 1, 1)
		return XRound(ToNumber(Eval(c.Args[0], ctx)))
	case "position":
		need(c, 0, 0)
		return float64(ctx.Pos)
	case "last":
		need(c, 0, 0)
		return float64(ctx.Size)
	case "concat":
		need(c, 2, -1)
		var sb strings.Builder
		for i := range c.Args {
			sb.WriteString(argString(c, i, ctx))
		}
		return sb.String()
	case "contains":
		need(c, 2, 2)
		return strings.Contains(argString(c, 0, ctx), argString(c, 1, ctx))
	case "starts-with":
		need(c, 2, 2)
		return strings.HasPrefix(argString(c, 0, ctx), argString(c, 1, ctx))
	case "ends-with":
		need(c, 2, 2)
		return strings.HasSuffix(argString(c, 0, ctx), argString(c, 1, ctx))
	case "substring-before":
		need(c, 2, 2)
		s, t := argString(c, 0, ctx), argString(c, 1, ctx)
		i := strings.Index(s, t)
		if i < 0 {
			return ""
		}
		return s[:i]
	case "substring-after":
		need(c, 2, 2)
		s, t := argString(c, 0, ctx), argString(c, 1, ctx)
		i := strings.Index(s, t)
		if i < 0 {
			return ""
		}
		return s[i+len(t):]
	case "substring":
		need(c, 2, 3)
		s := []rune(argString(c, 0, ctx))
		start := XRound(ToNumber(Eval(c.Args[1], ctx)))
		end := math.Inf(1)
		if len(c.Args) == 3 {
			end = start + XRound(ToNumber(Eval(c.Args[2], ctx)))
		}
		var sb strings.Builder
		for i, r := range s {
			p := float64(i + 1)
			if p >= start && p < end {
				sb.WriteRune(r)
			}
		}
		return sb.String()
	case "string-length":
		need(c, 0, 1)
		if len(c.Args) == 0 {
			return float64(len([]rune(ToString(NodeSet{ctx.Node}))))
		}
		return float64(len([]rune(argString(c, 0, ctx))))
	case "normalize-space":
		need(c, 0, 1)
		var s string
		if len(c.Args) == 0 {
			s = ToString(NodeSet{ctx.Node})
		} else {
			s = argString(c, 0, ctx)
		}
		return strings.Join(strings.FieldsFunc(s, func(r rune) bool { return r == ' ' || r == '\t' || r == '\n' || r == '\r' }), " ")
	case "translate":
		need(c, 3, 3)
		s, from, to := []rune(argString(c, 0, ctx)), []rune(argString(c, 1, ctx)), []rune(argString(c, 2, ctx))
		var sb strings.Builder
		for _, r := range s {
			idx := -1
			for i, f := range from {
				if f == r {
					idx = i
					break
				}
			}
			if idx < 0 {
				sb.WriteRune(r)
			} else if idx < len(to) {
				sb.WriteRune(to[idx])
			}
		}
		return sb.String()
	case "lower-case":
		need(c, 1, 1)
		return strings.ToLower(argString(c, 0, ctx))
	case "string-join":
		need(c, 2, 2)
		var parts []string
		switch v := Eval(c.Args[0], ctx).(type) {
		case NodeSet:
			for _, n := range v {
				parts = append(parts, n.StringValue())
			}
		default:
			parts = append(parts, ToString(v))
		}
		return strings.Join(parts, argString(c, 1, ctx))
	case "name", "local-name", "namespace-uri":
		need(c, 0, 1)
		n := ctx.Node
		if len(c.Args) == 1 {
			ns := nodeSetArg(c, 0, ctx)
			if len(ns) == 0 {
				return ""
			}
			n = ns[0]
		}
		if n.Doc.DataAsName && (n.Kind == xdoc.Text || n.Kind == xdoc.Comment) && c.Name != "namespace-uri" {
			// the navigator of this document reports character data as the name of text and comment nodes (as
			// xmlquery does): what the name functions say about such a node is the navigator's business
			panic(OutOfFragment{"name function of a text or comment node under a navigator that reports its data as LocalName()"})
		}
		switch c.Name {
		case "name":
			return n.QName()
		case "local-name":
			return n.Name
		default:
			if !n.Doc.HasNS {
				panic(OutOfFragment{"namespace-uri() on a navigator without namespace URIs"})
			}
			return n.NS
		}
	case "reverse":
		need(c, 1, 1)
		ns := nodeSetArg(c, 0, ctx)
		out := make(NodeSet, len(ns))
		for i, n := range ns {
			out[len(ns)-1-i] = n
		}
		return out
	case "matches":
		need(c, 2, 2)
		re, err := regexp.Compile(argString(c, 1, ctx))
		if err != nil {
			panic(OutOfFragment{"invalid pattern"})
		}
		return re.MatchString(argString(c, 0, ctx))
	case "replace":
		need(c, 3, 3)
		re, err := regexp.Compile(argString(c, 1, ctx))
		if err != nil {
			panic(OutOfFragment{"invalid pattern"})
		}
		return GoReplace(re, argString(c, 0, ctx), argString(c, 2, ctx))
	}
	panic(OutOfFragment{"function " + c.Name})
}
