// Package xgen holds the enumerators and seeded generators for documents,
// contexts, expressions and call histories. Every case derives its own PRNG
// from (seed, family, index), so a case can be regenerated in O(1) for replay.
package xgen

import (
	"fmt"
	"math/rand"

	"verif/internal/xdoc"
)

type G struct{ R *rand.Rand }

func splitmix(x uint64) uint64 {
	x += 0x9e3779b97f4a7c15
	x = (x ^ (x >> 30)) * 0xbf58476d1ce4e5b9
	x = (x ^ (x >> 27)) * 0x94d049bb133111eb
	return x ^ (x >> 31)
}

// Mix derives a PRNG seed from a base seed and salts (family hash, case index, ...).
func Mix(seed int64, salts ...int64) int64 {
	h := splitmix(uint64(seed))
	for _, s := range salts {
		h = splitmix(h ^ uint64(s))
	}
	return int64(h & 0x7fffffffffffffff)
}

// Salt turns a string into a salt.
func Salt(s string) int64 {
	var h uint64 = 1469598103934665603
	for i := 0; i < len(s); i++ {
		h ^= uint64(s[i])
		h *= 1099511628211
	}
	return int64(h & 0x7fffffffffffffff)
}

func New(seed int64, salts ...int64) *G {
	return &G{R: rand.New(rand.NewSource(Mix(seed, salts...)))}
}

func (g *G) Pick(xs ...string) string { return xs[g.R.Intn(len(xs))] }
func (g *G) Chance(p float64) bool    { return g.R.Float64() < p }
func (g *G) Intn(n int) int           { return g.R.Intn(n) }

var Names = []string{"a", "b", "c"}
var HostileNames = []string{"a", "a-1", "b", "a-1-1", "b1", "a.b", "a-1-2", "a1"}
var AttrNames = []string{"id", "x", "k"}

// TextVals range over numeric, non-numeric, duplicate, padded and signed strings (never empty: an
// empty text node does not exist in the XPath data model).
var TextVals = []string{"10", "x", "2.5", "-3", "007", "abc", "10", "3", " 12 ", "1e3", "30", "a-1", ".5", "7.", "-.25"}

// ExoticTextVals / ExoticAttrVals add numerals padded with characters that are white space for Unicode but
// not for XPath (NBSP, NEL, ideographic space): they are NOT numbers. Used only where no ASCII restriction applies.
var ExoticTextVals = append(append([]string(nil), TextVals...), "\u00a05", "7\u0085", "3\u3000")
var ExoticAttrVals = append(append([]string(nil), AttrVals...), "\u00a02", "4\u3000")
var AttrVals = []string{"1", "2", "x", "", "10", "2", " 3", "abc"}

type TreeOpts struct {
	MaxDepth, MaxFan int
	Names            []string
	TextVals         []string
	AttrVals         []string
	NoComments       bool
}

func DefaultTree() TreeOpts {
	return TreeOpts{MaxDepth: 4, MaxFan: 3, Names: Names, TextVals: TextVals, AttrVals: AttrVals}
}

// Tree generates a random document with one document element.
func (g *G) Tree(o TreeOpts) *xdoc.Doc {
	d := xdoc.NewDoc()
	if o.Names == nil {
		o.Names = Names
	}
	if o.TextVals == nil {
		o.TextVals = TextVals
	}
	if o.AttrVals == nil {
		o.AttrVals = AttrVals
	}
	addAttrs := func(e *xdoc.Node) {
		na := g.R.Intn(3)
		used := map[string]bool{}
		for j := 0; j < na; j++ {
			an := AttrNames[g.R.Intn(len(AttrNames))]
			if used[an] {
				continue
			}
			used[an] = true
			e.AddAttr("", an, "", o.AttrVals[g.R.Intn(len(o.AttrVals))])
		}
	}
	var fill func(n *xdoc.Node, depth int)
	fill = func(n *xdoc.Node, depth int) {
		k := g.R.Intn(o.MaxFan + 1)
		if depth <= 1 && k < 2 {
			k = 2 + g.R.Intn(o.MaxFan-1)
		}
		for i := 0; i < k; i++ {
			r := g.R.Intn(10)
			lastText := len(n.Children) > 0 && n.Children[len(n.Children)-1].Kind == xdoc.Text
			switch {
			case r < 6 || (r < 9 && lastText):
				e := n.AddElem("", o.Names[g.R.Intn(len(o.Names))], "")
				addAttrs(e)
				if depth+1 < o.MaxDepth {
					fill(e, depth+1)
				}
			case r < 9:
				n.AddText(o.TextVals[g.R.Intn(len(o.TextVals))])
			default:
				if o.NoComments {
					n.AddElem("", o.Names[g.R.Intn(len(o.Names))], "")
				} else {
					n.AddComment(g.Pick("cm", "10", "", "x"))
				}
			}
		}
	}
	top := d.Root.AddElem("", o.Names[g.R.Intn(len(o.Names))], "")
	if g.Chance(0.5) {
		top.AddAttr("", "id", "", "0")
	}
	fill(top, 1)
	return d.Finish()
}

// WideTree generates documents with many parents of different fan-out (0..maxFan
// matching children interleaved with other siblings, text and comments) down to maxDepth.
func (g *G) WideTree(maxDepth, maxFan int) *xdoc.Doc {
	d := xdoc.NewDoc()
	budget := 120
	var fill func(n *xdoc.Node, depth int)
	fill = func(n *xdoc.Node, depth int) {
		k := g.R.Intn(maxFan + 1)
		for i := 0; i < k && budget > 0; i++ {
			budget--
			r := g.R.Intn(12)
			lastText := len(n.Children) > 0 && n.Children[len(n.Children)-1].Kind == xdoc.Text
			switch {
			case r < 8 || (r < 10 && lastText):
				e := n.AddElem("", Names[g.R.Intn(len(Names))], "")
				if g.Chance(0.4) {
					e.AddAttr("", "id", "", fmt.Sprint(g.R.Intn(4)))
				}
				if g.Chance(0.2) {
					e.AddAttr("", "k", "", g.Pick("x", "y", ""))
				}
				if depth+1 < maxDepth && g.Chance(0.6) {
					fill(e, depth+1)
				}
			case r < 10:
				n.AddText(TextVals[g.R.Intn(len(TextVals))])
			default:
				n.AddComment("c")
			}
		}
	}
	top := d.Root.AddElem("", "r", "")
	for len(top.Children) < 3 && budget > 0 { // (budget exhausted below two deep children: the document stays as it is)
		fill(top, 1)
	}
	return d.Finish()
}

// SplitTextTree: documents as an API-built tree or an HTML parser hands them over - with RUNS of adjacent text
// nodes (text split at entity references / CDATA sections) and of adjacent comments among the children of
// several parents. Every node the navigator delivers is a candidate of its own: the second text node of a
// run has position()=2 among text() and the run counts fully in last().
func (g *G) SplitTextTree() *xdoc.Doc {
	d := xdoc.NewDoc()
	budget := 90
	var fill func(n *xdoc.Node, depth int)
	fill = func(n *xdoc.Node, depth int) {
		k := 2 + g.R.Intn(6)
		for i := 0; i < k && budget > 0; i++ {
			budget--
			switch r := g.R.Intn(10); {
			case r < 4:
				e := n.AddElem("", Names[g.R.Intn(len(Names))], "")
				if g.Chance(0.4) {
					e.AddAttr("", "id", "", fmt.Sprint(g.R.Intn(4)))
				}
				if depth < 3 && g.Chance(0.6) {
					fill(e, depth+1)
				}
			case r < 9:
				for run := 1 + g.R.Intn(3); run > 0; run-- {
					n.AddText(TextVals[g.R.Intn(len(TextVals))])
				}
			default:
				for run := 1 + g.R.Intn(2); run > 0; run-- {
					n.AddComment("c")
				}
			}
		}
	}
	top := d.Root.AddElem("", "r", "")
	fill(top, 1)
	return d.Finish()
}

// NameLikeTree: a random tree in which most text and comment nodes carry an ELEMENT NAME as their data, under a
// navigator that reports this data as LocalName() (xmlquery/htmlquery behaviour): a name test that forgets the
// node-type check selects them.
func (g *G) NameLikeTree(names []string) *xdoc.Doc {
	o := DefaultTree()
	o.Names = names
	d := g.Tree(o)
	d.DataAsName = true
	for _, n := range d.Nodes {
		if (n.Kind == xdoc.Text || n.Kind == xdoc.Comment) && g.Chance(0.7) {
			n.Data = names[g.R.Intn(len(names))]
		}
		if n.Kind == xdoc.Attr && g.Chance(0.3) {
			n.Data = n.Name // an attribute whose value is its own name
		}
	}
	return d
}

// DeepTree generates narrow, deep documents: a spine of 10-33 nested elements (names repeat along it) with
// occasional leaf siblings, text, comments and attributes. Depth-indexed state of the engine (per-level
// counters, recursion, ancestor walks) is only exercised when matches occur 8, 16, 24 ... levels below a step.
func (g *G) DeepTree() *xdoc.Doc {
	d := xdoc.NewDoc()
	depth := 10 + g.R.Intn(24)
	cur := d.Root.AddElem("", "r", "")
	for i := 0; i < depth; i++ {
		if g.Chance(0.3) {
			l := cur.AddElem("", Names[g.R.Intn(len(Names))], "")
			if g.Chance(0.4) {
				l.AddText(TextVals[g.R.Intn(len(TextVals))])
			}
		}
		if g.Chance(0.2) {
			cur.AddText(TextVals[g.R.Intn(len(TextVals))])
		}
		next := cur.AddElem("", Names[g.R.Intn(3)], "")
		if g.Chance(0.3) {
			next.AddAttr("", "id", "", fmt.Sprint(g.R.Intn(4)))
		}
		if g.Chance(0.15) {
			cur.AddComment("c")
		}
		if g.Chance(0.25) {
			cur.AddElem("", Names[g.R.Intn(len(Names))], "")
		}
		cur = next
	}
	cur.AddText(TextVals[g.R.Intn(len(TextVals))])
	return d.Finish()
}

// ---------- exhaustive shapes ----------

// shapes returns every ordered forest with n nodes as parent-index vectors in preorder.
func forests(n int) [][]int {
	// a preorder parent vector p[0..n) with p[i] in {-1 (top level)} ∪ ancestors-or-previous-siblings'-chain
	var out [][]int
	var rec func(p []int, stack []int)
	rec = func(p []int, stack []int) {
		if len(p) == n {
			out = append(out, append([]int(nil), p...))
			return
		}
		i := len(p)
		// the new node can be a child of any node on the current rightmost path, or top-level
		for k := len(stack); k >= 0; k-- {
			parent := -1
			if k > 0 {
				parent = stack[k-1]
			}
			ns := append(append([]int(nil), stack[:k]...), i)
			rec(append(p, parent), ns)
		}
	}
	rec(nil, nil)
	return out
}

// ShapeDocs enumerates every ordered tree with 1..maxElems element nodes below a fixed
// document element over the labels {a,b}, decorated deterministically with
// attributes, text and comments (the decoration never changes the element shape).
// With includeRootVariants the document element itself is labelled a or b.
func ShapeDocs(maxElems int) []*xdoc.Doc {
	var docs []*xdoc.Doc
	for n := 1; n <= maxElems; n++ {
		// trees with n nodes = forests with n-1 nodes below one top node
		for _, f := range forests(n - 1) {
			for mask := 0; mask < 1<<uint(n); mask++ {
				d := xdoc.NewDoc()
				label := func(i int) string {
					if mask&(1<<uint(i)) != 0 {
						return "b"
					}
					return "a"
				}
				nodes := make([]*xdoc.Node, n)
				nodes[0] = d.Root.AddElem("", label(0), "")
				for i, par := range f {
					nodes[i+1] = nodes[par+1].AddElem("", label(i+1), "")
				}
				// deterministic decoration
				for i, e := range nodes {
					if (i+mask)%2 == 0 {
						e.AddAttr("", "id", "", fmt.Sprint((i+mask)%3))
					}
					if (i+n)%3 == 0 {
						e.AddAttr("", "k", "", "x")
					}
				}
				for i, e := range nodes {
					if len(e.Children) == 0 {
						switch (i + mask + n) % 4 {
						case 0:
							e.AddText([]string{"10", "x", "2"}[(i+mask)%3])
						case 1:
							e.AddComment("c")
						}
					} else if (i+mask)%3 == 0 {
						// a text node after the first child element
						kids := e.Children
						e.Children = nil
						for j, c := range kids {
							c.Idx = len(e.Children)
							e.Children = append(e.Children, c)
							if j == 0 {
								e.AddText("7")
							}
						}
					}
				}
				docs = append(docs, d.Finish())
			}
		}
	}
	return docs
}

// ---------- namespace documents ----------

var NSURIs = []string{"urn:one", "urn:two", "urn:three"}

// NSTree generates a document whose elements and attributes live in 0..3 namespaces
// under varying prefixes (several prefixes per URI, default namespace, prefixed attributes).
func (g *G) NSTree(hasNS bool) *xdoc.Doc {
	d := xdoc.NewDoc()
	d.HasNS = hasNS
	prefixes := []string{"", "p", "q", "r", "p2"}
	names, attrNames := Names, AttrNames
	if g.R.Intn(4) == 0 {
		// every character an NCName may contain: full stop, hyphen, underscore, digits, non-ASCII letters
		prefixes = []string{"", "p.q", "q-1", "r_", "p2"}
		names = []string{"a.b", "b-1", "c_2", "\u00e91", "a", "a.b.c"}
		attrNames = []string{"id", "x.y", "k-1"}
	}
	// binding of each prefix to a URI (or none) for this document
	bind := map[string]string{}
	for _, p := range prefixes {
		switch g.R.Intn(4) {
		case 0:
			bind[p] = ""
		default:
			bind[p] = NSURIs[g.R.Intn(len(NSURIs))]
		}
	}
	if !hasNS {
		// without namespace support documents still carry prefixes
		for _, p := range prefixes {
			bind[p] = ""
		}
	}
	budget := 24
	var fill func(n *xdoc.Node, depth int)
	fill = func(n *xdoc.Node, depth int) {
		k := 1 + g.R.Intn(3)
		for i := 0; i < k && budget > 0; i++ {
			budget--
			p := prefixes[g.R.Intn(len(prefixes))]
			e := n.AddElem(p, names[g.R.Intn(len(names))], bind[p])
			for j := g.R.Intn(3); j > 0; j-- {
				ap := prefixes[g.R.Intn(len(prefixes))]
				an := attrNames[g.R.Intn(len(attrNames))]
				dup := false
				for _, a := range e.Attrs {
					if a.Name == an && (a.Prefix == ap || (hasNS && a.NS == bind[ap] && ap != "" && a.Prefix != "")) {
						dup = true
					}
				}
				if dup {
					continue
				}
				ns := ""
				if ap != "" {
					ns = bind[ap] // an unprefixed attribute is in no namespace
				}
				e.AddAttr(ap, an, ns, g.Pick("1", "2", "v"))
			}
			if g.Chance(0.3) {
				e.AddText(g.Pick("t", "10"))
			}
			if depth < 3 && g.Chance(0.6) {
				fill(e, depth+1)
			}
		}
	}
	fill(d.Root.AddElem(prefixes[g.R.Intn(len(prefixes))], "a", ""), 1)
	top := d.Root.Children[0]
	top.NS = bind[top.Prefix]
	if hasNS && g.Chance(0.5) {
		// prefix REBINDING: inside one or two subtrees a prefix denotes another namespace than outside (xmlns:p
		// redeclared on an inner element). What a prefix of the document means is a property of the node, not of the
		// document: p:a here and p:a there may be in different namespaces.
		var elems []*xdoc.Node
		var walk func(n *xdoc.Node)
		walk = func(n *xdoc.Node) {
			for _, c := range n.Children {
				if c.Kind == xdoc.Element {
					elems = append(elems, c)
					walk(c)
				}
			}
		}
		walk(d.Root)
		for k := 1 + g.R.Intn(2); k > 0 && len(elems) > 0; k-- {
			sub := elems[g.R.Intn(len(elems))]
			p := prefixes[g.R.Intn(len(prefixes))]
			u := NSURIs[g.R.Intn(len(NSURIs))]
			type undo struct {
				n  *xdoc.Node
				ns string
			}
			var log []undo
			ok := true
			var re func(n *xdoc.Node)
			re = func(n *xdoc.Node) {
				if n.Prefix == p {
					log = append(log, undo{n, n.NS})
					n.NS = u
				}
				seen := map[string]bool{}
				for _, a := range n.Attrs {
					if a.Prefix == p && p != "" {
						log = append(log, undo{a, a.NS})
						a.NS = u
					}
					if a.Prefix != "" {
						if seen[a.NS+"|"+a.Name] {
							ok = false // two attributes with one expanded name: not a document
						}
						seen[a.NS+"|"+a.Name] = true
					}
				}
				for _, c := range n.Children {
					if c.Kind == xdoc.Element {
						re(c)
					}
				}
			}
			re(sub)
			if !ok {
				for _, x := range log {
					x.n.NS = x.ns
				}
			}
		}
	}
	return d.Finish()
}

// DigitTree builds a document for identity-collision hunting: several levels of same-named siblings
// with fan-out up to 12, so that distinct nodes have sibling-position chains whose decimal digits
// concatenate alike ((1,11,1) vs (11,1,1) vs (1,1,11) vs (1,1,1,1)), plus repeated text/attribute values.
func (g *G) DigitTree() *xdoc.Doc {
	d := xdoc.NewDoc()
	r := d.Root.AddElem("", "r", "")
	name := func(level int) string { return []string{"p", "a", "b", "c"}[level%4] }
	same := g.Chance(0.5) // all levels use one element name
	var grow func(n *xdoc.Node, level int, wide bool)
	grow = func(n *xdoc.Node, level int, wide bool) {
		if level > 3 {
			return
		}
		k := 2
		if wide {
			k = 11 + g.Intn(2)
		}
		for i := 1; i <= k; i++ {
			nm := name(level)
			if same {
				nm = "a"
			}
			e := n.AddElem("", nm, "")
			if i == 1 || i == 11 {
				if g.Chance(0.5) {
					e.AddAttr("", "id", "", "1")
				}
				// the first and the eleventh child are expanded: their chains differ only in where the "11" sits
				grow(e, level+1, i == 1 && level < 2)
			} else if i == 2 && g.Chance(0.5) {
				e.AddText("1")
			}
		}
	}
	grow(r, 0, true)
	return d.Finish()
}

// BigTree builds a document that crosses the 256 boundary in every dimension a byte could count:
// fan same-named children under one parent (some with children of their own), one element with fan
// attributes, and a chain of fan nested elements.
func BigTree(fan int) *xdoc.Doc {
	d := xdoc.NewDoc()
	r := d.Root.AddElem("", "r", "")
	list := r.AddElem("", "list", "")
	for i := 1; i <= fan; i++ {
		it := list.AddElem("", "item", "")
		it.AddAttr("", "n", "", fmt.Sprint(i))
		it.AddAttr("", "k", "", fmt.Sprint(i%7))
		if i%64 == 1 || i > fan-3 {
			it.AddElem("", "sub", "").AddText("v")
			it.AddElem("", "sub", "")
		}
		if i%50 == 0 {
			list.AddText("t")
		}
	}
	attrs := r.AddElem("", "attrs", "")
	for i := 1; i <= fan; i++ {
		attrs.AddAttr("", fmt.Sprintf("a%d", i), "", "1")
	}
	deep := r.AddElem("", "deep", "")
	cur := deep
	for i := 1; i <= fan; i++ {
		cur = cur.AddElem("", "n", "")
	}
	cur.AddText("bottom")
	texts := r.AddElem("", "texts", "")
	for i := 1; i <= fan; i++ {
		texts.AddElem("", "w", "").AddText(fmt.Sprintf("w%d ", i))
	}
	return d.Finish()
}
