package xgen

import (
	"strings"

	"verif/internal/xref"
)

// ---------- C10: operator chains ----------

var BinOps = []string{"or", "and", "=", "!=", "<", "<=", ">", ">=", "+", "-", "*", "div", "mod", "|"}

// chainOperands are primaries, steps and function calls, including the element names that
// collide with operator names and the wildcard that collides with the multiply operator.
func chainOperands() []Expr {
	child := func(n string) Expr {
		return Path{Steps: []*Step{{Axis: "child", Abbrev: "child", Test: Test{Kind: "name", Local: n}}}}
	}
	return []Expr{
		num(1), child("a"), str("s"), child("div"), xref.Num{Lex: "2.5"},
		Path{Steps: []*Step{{Axis: "attribute", Abbrev: "@", Test: Test{Kind: "name", Local: "id"}}}},
		child("and"), call("count", child("b")), Path{Steps: []*Step{{Axis: "child", Abbrev: "child", Test: Test{Kind: "*"}}}},
		child("or"), call("true"), child("mod"),
		Path{Steps: []*Step{{Axis: "child", Abbrev: "child", Test: Test{Kind: "name", Local: "b"}}, {Axis: "child", Abbrev: "child", Test: Test{Kind: "name", Local: "c"}}}},
		child("a-b"), Path{Steps: []*Step{SelfDot()}}, Path{Abs: true, Steps: []*Step{DSlash(), {Axis: "child", Abbrev: "child", Test: Test{Kind: "name", Local: "c"}}}},
		Path{Steps: []*Step{{Axis: "child", Abbrev: "child", Test: Test{Kind: "text"}}}},
		xref.Num{Lex: ".5"}, child("text"), child("node"), child("comment"),
		Path{Steps: []*Step{{Axis: "child", Abbrev: "child", Test: Test{Kind: "name", Local: "processing-instruction"}}, {Axis: "child", Abbrev: "child", Test: Test{Kind: "text"}}}},
		Path{Steps: []*Step{{Axis: "child", Abbrev: "child", Test: Test{Kind: "name", Prefix: "p", Local: "a"}}, {Axis: "child", Abbrev: "child", Test: Test{Kind: "name", Local: "b"}}}},
		Path{Steps: []*Step{{Axis: "attribute", Abbrev: "@", Test: Test{Kind: "name", Prefix: "q", Local: "k"}}}},
		Path{Steps: []*Step{{Axis: "parent", Test: Test{Kind: "node"}, Abbrev: ".."}, {Axis: "child", Abbrev: "child", Test: Test{Kind: "name", Prefix: "p", Local: "div"}}}},
	}
}

// Chain builds the token sequence "o0 op0 o1 op1 ... on" for the operator indexes ops
// (into BinOps). variant selects operands and where unary minus signs are placed
// (never to the right of '|', where the grammar has no unary expression).
func Chain(ops []int, variant int) []xref.Tok {
	pool := chainOperands()
	var toks []xref.Tok
	h := uint64(variant)*0x9e3779b97f4a7c15 + 12345
	next := func() uint64 {
		h = splitmix(h)
		return h
	}
	for i := 0; i <= len(ops); i++ {
		minusOK := i == 0 || BinOps[ops[i-1]] != "|"
		if variant > 0 && minusOK && next()%4 == 0 {
			toks = append(toks, xref.Tok{S: "-", K: xref.TPunct})
			if next()%5 == 0 {
				toks = append(toks, xref.Tok{S: "-", K: xref.TPunct})
			}
		}
		var o Expr
		if variant == 0 {
			o = pool[i%2] // 1 and a alternate: the plain chain
		} else {
			o = pool[int(next()%uint64(len(pool)))]
		}
		toks = append(toks, xref.Tokens(o)...)
		if i < len(ops) {
			op := BinOps[ops[i]]
			k := xref.TPunct
			switch op {
			case "or", "and", "div", "mod":
				k = xref.TName
			}
			toks = append(toks, xref.Tok{S: op, K: k, Op: true})
		}
	}
	return toks
}

// ---------- C10(c): abbreviation expansion ----------

// Expand returns a copy of e with every abbreviated step written out
// (a -> child::a, @a -> attribute::a, . -> self::node(), .. -> parent::node(), // -> /descendant-or-self::node()/).
func Expand(e Expr) Expr {
	return mapSteps(e, func(s *Step) *Step {
		c := *s
		c.Abbrev = ""
		return &c
	})
}

// CountAbbrev counts abbreviated steps in e.
func CountAbbrev(e Expr) int {
	n := 0
	xref.WalkSteps(e, func(s *Step) {
		if s.Abbrev != "" && s.Seq == nil {
			n++
		}
	})
	return n
}

// ExpandOne expands only the k-th abbreviated step (in walk order).
func ExpandOne(e Expr, k int) Expr {
	i := 0
	return mapSteps(e, func(s *Step) *Step {
		c := *s
		if s.Abbrev != "" && s.Seq == nil {
			if i == k {
				c.Abbrev = ""
			}
			i++
		}
		return &c
	})
}

func mapSteps(e Expr, f func(*Step) *Step) Expr {
	var mapStep func(s *Step) *Step
	var mapE func(e Expr) Expr
	mapStep = func(s *Step) *Step {
		c := f(s)
		if s.Seq != nil {
			c.Seq = nil
			for _, a := range s.Seq {
				c.Seq = append(c.Seq, mapStep(a))
			}
		}
		c.Preds = nil
		for _, p := range s.Preds {
			c.Preds = append(c.Preds, mapE(p))
		}
		return c
	}
	mapE = func(e Expr) Expr {
		switch x := e.(type) {
		case xref.Bin:
			return xref.Bin{Op: x.Op, L: mapE(x.L), R: mapE(x.R)}
		case xref.Neg:
			return xref.Neg{X: mapE(x.X)}
		case xref.Group:
			return xref.Group{X: mapE(x.X)}
		case xref.Call:
			c := xref.Call{Name: x.Name}
			for _, a := range x.Args {
				c.Args = append(c.Args, mapE(a))
			}
			return c
		case xref.Filter:
			c := xref.Filter{X: mapE(x.X)}
			for _, p := range x.Preds {
				c.Preds = append(c.Preds, mapE(p))
			}
			return c
		case xref.Path:
			c := xref.Path{Abs: x.Abs}
			if x.Start != nil {
				c.Start = mapE(x.Start)
			}
			for _, s := range x.Steps {
				c.Steps = append(c.Steps, mapStep(s))
			}
			return c
		}
		return e
	}
	return mapE(e)
}

// ---------- C15: token-level generation that ignores typing ----------

var AllFuncs = []string{"boolean", "ceiling", "concat", "contains", "count", "ends-with", "false", "floor", "last", "local-name", "lower-case", "matches", "name", "namespace-uri", "normalize-space", "not", "number", "position", "replace", "reverse", "round", "starts-with", "string", "string-join", "string-length", "substring", "substring-after", "substring-before", "sum", "translate", "true"}

var AllAxes = append(append([]string(nil), xref.AxisNames...), "namespace")

func (g *G) tokStep(d int, noRound bool) string {
	var s string
	switch g.R.Intn(8) {
	case 0:
		s = "."
	case 1:
		s = ".."
	case 2:
		s = "@" + g.Pick("id", "x", "*", "k")
	case 3:
		s = g.Pick(AllAxes...) + "::" + g.Pick("a", "b", "*", "node()", "text()", "comment()")
	default:
		s = g.Pick("a", "b", "c", "*", "node()", "text()")
	}
	if g.R.Intn(4) == 0 && s != "." && s != ".." {
		s += "[" + g.TokExpr(d-1, noRound) + "]"
	}
	return s
}

func (g *G) tokPath(d int, noRound bool) string {
	n := 1 + g.R.Intn(3)
	var parts []string
	for i := 0; i < n; i++ {
		parts = append(parts, g.tokStep(d, noRound))
	}
	p := parts[0]
	for _, x := range parts[1:] {
		p += g.Pick("/", "/", "//") + x
	}
	switch g.R.Intn(5) {
	case 0:
		p = "/" + p
	case 1:
		p = "//" + p
	}
	return p
}

// TokExpr generates expression text at token level with no regard for typing: any function
// with 0-4 arguments of any kind, every axis name, variables, every operator between
// arbitrary operands, filters and steps applied to non-node-set primaries.
func (g *G) TokExpr(d int, noRound bool) string {
	k := g.R.Intn(12)
	if d <= 0 {
		k = g.R.Intn(5)
	}
	switch k {
	case 0:
		return g.Pick("0", "1", "2", "2.5", "10", "0.5", "3")
	case 1:
		return "'" + g.Pick("", "a", "10", "x", "(", "a*", "[", "$1", "b", " ", "é", "aé", "中", "éé中", "ab", "abc", "a\u00a0", "x\u3000", "b\v", " a\f", "(a)", "(.)(.)", "$", "x$", "$1$", "$2", "^", "(a|b)*", "\\", "$0", "${1}") + "'"
	case 2, 3:
		return g.tokPath(d, noRound)
	case 4:
		return g.Pick("true()", "false()", "position()", "last()", "$x", "/", "string()", "number()", "name()", "local-name()", "normalize-space()")
	case 5, 6, 7:
		return g.TokExpr(d-1, noRound) + " " + g.Pick(BinOps...) + " " + g.TokExpr(d-1, noRound)
	case 8:
		return "-" + g.TokExpr(d-1, noRound)
	case 9:
		return "(" + g.TokExpr(d-1, noRound) + ")" + g.Pick("", "", "["+g.TokExpr(d-1, noRound)+"]", "/"+g.tokStep(d-1, noRound), "//"+g.tokStep(d-1, noRound))
	default:
		f := g.Pick(AllFuncs...)
		for noRound && f == "round" {
			f = g.Pick(AllFuncs...)
		}
		n := g.R.Intn(5)
		var args []string
		for i := 0; i < n; i++ {
			args = append(args, g.TokExpr(d-1, noRound))
		}
		return f + "(" + strings.Join(args, ", ") + ")"
	}
}

// ---------- C16: regular expressions ----------

// Regex generates a pattern from a small grammar (literals, classes, alternation,
// groups, quantifiers, anchors, (?i)) together with the number of capture groups.
func (g *G) Regex(d int) string {
	atom := func() string {
		switch g.R.Intn(10) {
		case 0:
			return g.Pick("a", "b", "c", "x", "1", "-")
		case 1:
			return g.Pick("[abc]", "[a-c]", "[^a]", "[0-9]", "\\d", "\\w", "\\s", ".")
		case 2:
			if d > 0 {
				return "(" + g.Regex(d-1) + ")"
			}
			return "(a)"
		case 3:
			if d > 0 {
				return "(?:" + g.Regex(d-1) + ")"
			}
			return "b"
		case 4:
			return g.Pick("ab", "bc", "abc", "x1")
		default:
			return g.Pick("a", "b", "c", "1", "2", " ")
		}
	}
	piece := func() string {
		a := atom()
		switch g.R.Intn(8) {
		case 0:
			return a + "*"
		case 1:
			return a + "+"
		case 2:
			return a + "?"
		case 3:
			return a + g.Pick("{2}", "{1,2}", "{0,1}", "*?", "+?")
		}
		return a
	}
	seq := func() string {
		n := 1 + g.R.Intn(3)
		s := ""
		for i := 0; i < n; i++ {
			s += piece()
		}
		return s
	}
	out := seq()
	if g.Chance(0.25) {
		out += "|" + seq()
	}
	return out
}

func (g *G) RegexTop() string {
	p := g.Regex(2)
	if g.Chance(0.2) {
		p = "^" + p
	}
	if g.Chance(0.2) {
		p = p + "$"
	}
	if g.Chance(0.15) {
		p = "(?i)" + p
	}
	return p
}

// Subject generates a subject string over the pattern alphabet.
func (g *G) Subject() string {
	n := g.R.Intn(8)
	var sb strings.Builder
	for i := 0; i < n; i++ {
		sb.WriteString(g.Pick("a", "b", "c", "x", "1", "2", " ", "-", "A", "B", "ab", "abc"))
	}
	return sb.String()
}

// ReplTemplate generates a replacement template with $1..$12, literal text and no other '$'.
func (g *G) ReplTemplate() string {
	n := g.R.Intn(4)
	var sb strings.Builder
	for i := 0; i < n; i++ {
		switch g.R.Intn(3) {
		case 0:
			sb.WriteString(g.Pick("$1", "$2", "$3", "$9", "$10", "$12", "$11"))
		case 1:
			sb.WriteString(g.Pick("-", "x", "[", "]", "1", "0", " "))
		default:
			sb.WriteString(g.Pick("$1", "$2") + g.Pick("", "0", "1", "a"))
		}
	}
	if g.Chance(0.15) {
		// a dollar sign that is not a group reference: at the very end, doubled, before a letter, $0, braces
		sb.WriteString(g.Pick("$", "$$", "x$", "$1$", "$0", "${1}", "$a", "$ ", "$-", "\\", "\\1", "$1\\"))
	}
	return sb.String()
}
