package xgen

import (
	"strings"

	"verif/internal/xref"
)

// CostEstimate is an upper estimate of the number of node deliveries the ENGINE needs to evaluate e
// on a document with n nodes: the engine does not de-duplicate between steps, so a step on a
// document-wide axis multiplies the number of deliveries by up to n, and a predicate is evaluated once
// per delivered candidate. Workloads skip expressions whose estimate exceeds MaxCost, so that the
// navigator-operation budget (which decides non-termination) keeps a wide margin over every
// legitimate evaluation. Skipped cases are counted in the evidence.
const MaxCost = 3e6

func axisFan(axis string, n float64) float64 {
	switch axis {
	case "self", "parent":
		return 1
	case "attribute":
		return 2
	case "child", "following-sibling", "preceding-sibling":
		return 5
	case "ancestor", "ancestor-or-self":
		return 8
	}
	return n // descendant, descendant-or-self, following, preceding
}

func CostEstimate(e xref.Expr, nodes int) float64 {
	n := float64(nodes)
	if n < 2 {
		n = 2
	}
	var cost func(e xref.Expr) (work, out float64)
	stepCost := func(s *xref.Step, in float64) (work, out float64) {
		var one func(s *xref.Step) (float64, float64)
		one = func(s *xref.Step) (float64, float64) {
			if s.Seq != nil {
				w, o := 0.0, 0.0
				for _, a := range s.Seq {
					aw, ao := one(a)
					w, o = w+aw, o+ao
				}
				return w, o
			}
			o := in * axisFan(s.Axis, n)
			w := o
			for _, p := range s.Preds {
				pw, _ := cost(p)
				w += o * pw
			}
			return w, o
		}
		return one(s)
	}
	cost = func(e xref.Expr) (float64, float64) {
		switch x := e.(type) {
		case xref.Path:
			work, out := 1.0, 1.0
			if x.Start != nil {
				work, out = cost(x.Start)
			}
			for _, s := range x.Steps {
				w, o := stepCost(s, out)
				work += w
				out = o
				if out < 1 {
					out = 1
				}
			}
			return work, out
		case xref.Filter:
			w, o := cost(x.X)
			for _, p := range x.Preds {
				pw, _ := cost(p)
				w += o * pw
			}
			return w, o
		case xref.Group:
			return cost(x.X)
		case xref.Neg:
			return cost(x.X)
		case xref.Bin:
			lw, lo := cost(x.L)
			rw, ro := cost(x.R)
			switch x.Op {
			case "=", "!=", "<", "<=", ">", ">=":
				// node-set x node-set comparison re-evaluates the right operand per left node
				return lw + lo*rw + lo*ro, 1
			case "|":
				return lw + rw, lo + ro
			}
			return lw + rw, 1
		case xref.Call:
			w := 1.0
			for _, a := range x.Args {
				aw, _ := cost(a)
				w += aw
			}
			if x.Name == "reverse" && len(x.Args) == 1 {
				_, o := cost(x.Args[0])
				return w, o
			}
			return w, 1
		}
		return 1, 1
	}
	w, _ := cost(e)
	return w
}

// CostEstimateText is the same bound for expression texts without an AST (token-level generation):
// every document-wide axis or '//' multiplies by n.
func CostEstimateText(src string, nodes int) float64 {
	n := float64(nodes)
	k := strings.Count(src, "//") + strings.Count(src, "following::") + strings.Count(src, "preceding::") +
		strings.Count(src, "descendant::") + strings.Count(src, "descendant-or-self::")
	c := 10.0
	for i := 0; i < k; i++ {
		c *= n
	}
	return c
}

// TooExpensive reports whether e should be skipped on a document with n nodes.
func TooExpensive(e xref.Expr, nodes int) bool { return CostEstimate(e, nodes) > MaxCost }
