package xgen

import (
	"fmt"

	"verif/internal/xdoc"
	"verif/internal/xref"
)

type (
	Expr = xref.Expr
	Step = xref.Step
	Test = xref.Test
	Path = xref.Path
)

// Env is what data-directed generation looks at: the document and context the
// expression will be evaluated on, and the name pools to draw node tests from.
type Env struct {
	Doc   *xdoc.Doc
	Ctx   *xdoc.Node
	Names []string
}

func (e *Env) names() []string {
	if e != nil && len(e.Names) > 0 {
		return e.Names
	}
	return Names
}

func num(i int) Expr                { return xref.Num{Lex: fmt.Sprint(i)} }
func str(s string) Expr             { return xref.Str{V: s} }
func call(n string, a ...Expr) Expr { return xref.Call{Name: n, Args: a} }
func bin(op string, l, r Expr) Expr { return xref.Bin{Op: op, L: l, R: r} }

func DSlash() *Step {
	return &Step{Axis: "descendant-or-self", Test: Test{Kind: "node"}, Abbrev: "//"}
}

func SelfDot() *Step { return &Step{Axis: "self", Test: Test{Kind: "node"}, Abbrev: "."} }

// NodeTest draws a node test for an axis.
func (g *G) NodeTest(axis string, names []string) Test {
	if axis == "attribute" {
		switch g.R.Intn(4) {
		case 0:
			return Test{Kind: "*"}
		case 1:
			return Test{Kind: "node"}
		default:
			return Test{Kind: "name", Local: AttrNames[g.R.Intn(len(AttrNames))]}
		}
	}
	switch g.R.Intn(8) {
	case 0:
		return Test{Kind: "*"}
	case 1:
		return Test{Kind: "node"}
	case 2:
		return Test{Kind: "text"}
	case 3:
		if g.Chance(0.5) {
			return Test{Kind: "comment"}
		}
		return Test{Kind: "*"}
	default:
		return Test{Kind: "name", Local: names[g.R.Intn(len(names))]}
	}
}

// abbreviate randomly replaces an explicit step by its abbreviation where one exists.
func (g *G) abbreviate(s *Step) {
	switch {
	case s.Axis == "child" && g.Chance(0.7):
		s.Abbrev = "child"
	case s.Axis == "attribute" && g.Chance(0.7):
		s.Abbrev = "@"
	case s.Axis == "self" && s.Test.Kind == "node" && len(s.Preds) == 0 && g.Chance(0.7):
		s.Abbrev = "."
	case s.Axis == "parent" && s.Test.Kind == "node" && len(s.Preds) == 0 && g.Chance(0.7):
		s.Abbrev = ".."
	}
}

// FreeStep: a predicate-free step on any axis, possibly abbreviated.
func (g *G) FreeStep(names []string) *Step {
	axis := xref.AxisNames[g.R.Intn(len(xref.AxisNames))]
	if g.Chance(0.3) {
		axis = "child"
	}
	s := &Step{Axis: axis, Test: g.NodeTest(axis, names)}
	g.abbreviate(s)
	return s
}

// FreePath: a predicate-free location path of nsteps steps (C01 fragment).
func (g *G) FreePath(nsteps int, names []string) Path {
	p := Path{Abs: g.Chance(0.4)}
	for i := 0; i < nsteps; i++ {
		if g.Chance(0.25) && (i > 0 || p.Abs) {
			p.Steps = append(p.Steps, DSlash())
		}
		p.Steps = append(p.Steps, g.FreeStep(names))
	}
	return p
}

// RelFreePath: like FreePath but always relative.
func (g *G) RelFreePath(nsteps int, names []string) Path {
	p := g.FreePath(nsteps, names)
	p.Abs = false
	if p.Steps[0].Abbrev == "//" {
		p.Steps = append([]*Step{SelfDot()}, p.Steps...)
	}
	return p
}

// FlatPath: child/attribute/self steps from one context, or a single //name (C12 fragment).
func (g *G) FlatPath(names []string) Path {
	if g.Chance(0.25) {
		return Path{Abs: true, Steps: []*Step{DSlash(), {Axis: "child", Abbrev: "child", Test: g.NodeTest("child", names)}}}
	}
	p := Path{Abs: g.Chance(0.3)}
	n := 1 + g.R.Intn(3)
	for i := 0; i < n; i++ {
		if i == n-1 && g.Chance(0.25) {
			p.Steps = append(p.Steps, &Step{Axis: "attribute", Abbrev: "@", Test: g.NodeTest("attribute", names)})
			break
		}
		if g.Chance(0.15) {
			p.Steps = append(p.Steps, &Step{Axis: "self", Test: g.NodeTest("self", names)})
			continue
		}
		p.Steps = append(p.Steps, &Step{Axis: "child", Abbrev: "child", Test: g.NodeTest("child", names)})
	}
	return p
}

// RelFlat: a relative flat path (child/attribute/self steps from the context).
func (g *G) RelFlat(names []string) Path {
	p := g.FlatPath(names)
	p.Abs = false
	if len(p.Steps) > 1 && p.Steps[0].Abbrev == "//" {
		p.Steps = p.Steps[1:]
	}
	return p
}

// denot evaluates e with the reference at env.Ctx and returns the node-set (nil when not a node-set).
func denot(e Expr, env *Env) xref.NodeSet {
	if env == nil || env.Ctx == nil {
		return nil
	}
	v, oof := xref.SafeEval(e, xref.NewCtx(env.Ctx))
	if oof != "" {
		return nil
	}
	ns, _ := v.(xref.NodeSet)
	return ns
}

// DirectedString picks a string literal to compare with node-set ns so that
// first-node-only, last-node-only, all-nodes and no-node implementations of the
// existential comparison each disagree with the correct one on some draw.
func (g *G) DirectedString(ns xref.NodeSet) string {
	if len(ns) == 0 || g.Chance(0.15) {
		return g.Pick("10", "x", "abc", "", "1", "zz")
	}
	switch g.R.Intn(4) {
	case 0:
		return ns[0].StringValue()
	case 1:
		return ns[len(ns)-1].StringValue()
	case 2:
		return ns[len(ns)/2].StringValue()
	default:
		return ns[g.R.Intn(len(ns))].StringValue()
	}
}

// DirectedNumber picks a numeric literal around the values present in ns.
func (g *G) DirectedNumber(ns xref.NodeSet) string {
	var vals []float64
	for _, n := range ns {
		v := xref.StrToNumber(n.StringValue())
		if v == v && v > -1e6 && v < 1e6 {
			vals = append(vals, v)
		}
	}
	if len(vals) == 0 || g.Chance(0.15) {
		return g.Pick("10", "3", "2.5", "0", "1", "12")
	}
	var v float64
	switch g.R.Intn(3) {
	case 0:
		v = vals[0]
	case 1:
		v = vals[len(vals)-1]
	default:
		v = vals[g.R.Intn(len(vals))]
	}
	v += float64(g.R.Intn(3) - 1)
	if v < 0 {
		v = -v
	}
	return xref.NumToString(v)
}

// CountArg: an argument for count() whose engine delivery sequence is duplicate-free
// (single step on any axis, a flat path, or //name) - see known finding KF-2.
func (g *G) CountArg(names []string) Expr {
	switch g.R.Intn(3) {
	case 0:
		return g.RelFlat(names)
	case 1:
		return Path{Steps: []*Step{g.FreeStep(names)}}
	default:
		return Path{Abs: true, Steps: []*Step{DSlash(), {Axis: "child", Abbrev: "child", Test: g.NodeTest("child", names)}}}
	}
}

var ops6 = []string{"=", "!=", "<", "<=", ">", ">="}

// CursorMover: a boolean operand whose evaluation moves the shared context cursor.
func (g *G) CursorMover(names []string) Expr {
	nm := func() Test { return Test{Kind: "name", Local: names[g.R.Intn(len(names))]} }
	any := Test{Kind: "*"}
	pickT := func() Test {
		if g.Chance(0.5) {
			return any
		}
		return nm()
	}
	switch g.R.Intn(7) {
	case 0:
		return Path{Steps: []*Step{{Axis: "following", Test: pickT()}}}
	case 1:
		return Path{Steps: []*Step{{Axis: "preceding", Test: pickT()}}}
	case 2:
		return Path{Steps: []*Step{{Axis: "child", Abbrev: "child", Test: pickT(), Preds: []Expr{Path{Steps: []*Step{{Axis: "attribute", Abbrev: "@", Test: Test{Kind: "*"}}}}}}}}
	case 3:
		return xref.Group{X: bin("|", Path{Steps: []*Step{{Axis: "child", Abbrev: "child", Test: pickT()}}}, Path{Steps: []*Step{{Axis: "parent", Test: Test{Kind: "node"}, Abbrev: ".."}}})}
	case 4:
		return bin(">", call("count", Path{Steps: []*Step{{Axis: g.Pick("following", "preceding", "descendant", "ancestor"), Test: pickT()}}}), num(0))
	case 5:
		return Path{Steps: []*Step{{Axis: "descendant", Test: pickT()}, {Axis: "parent", Test: Test{Kind: "node"}, Abbrev: ".."}}}
	default:
		return Path{Steps: []*Step{{Axis: "ancestor", Test: pickT()}, {Axis: "child", Abbrev: "child", Test: pickT()}}}
	}
}

// ContextSensitive: a boolean operand whose value depends on where the context cursor is.
func (g *G) ContextSensitive(env *Env) Expr {
	names := env.names()
	c := env.Ctx
	switch g.R.Intn(5) {
	case 0:
		nm := names[g.R.Intn(len(names))]
		if c != nil && c.Kind == xdoc.Element && g.Chance(0.6) {
			nm = c.Name
		}
		return bin(g.Pick("=", "!="), call("local-name"), str(nm))
	case 1:
		v := g.Pick("1", "2", "x", "0")
		an := AttrNames[g.R.Intn(len(AttrNames))]
		if c != nil && len(c.Attrs) > 0 && g.Chance(0.7) {
			a := c.Attrs[g.R.Intn(len(c.Attrs))]
			an, v = a.Name, a.Data
		}
		return bin(g.Pick("=", "!="), Path{Steps: []*Step{{Axis: "attribute", Abbrev: "@", Test: Test{Kind: "name", Local: an}}}}, str(v))
	case 2:
		return Path{Steps: []*Step{{Axis: "child", Abbrev: "child", Test: Test{Kind: "name", Local: names[g.R.Intn(len(names))]}}}}
	case 3:
		return bin(g.Pick("=", ">", "<"), call("count", Path{Steps: []*Step{{Axis: "child", Abbrev: "child", Test: Test{Kind: g.Pick("*", "node")}}}}), num(g.R.Intn(3)))
	default:
		v := "x"
		if c != nil {
			v = c.StringValue()
			if len(v) > 12 {
				v = v[:12]
			}
		}
		return bin(g.Pick("=", "!="), Path{Steps: []*Step{SelfDot()}}, str(v))
	}
}

// BoolPred: a boolean-valued predicate expression of nesting depth d (C02 fragment).
func (g *G) BoolPred(d int, env *Env) Expr {
	names := env.names()
	k := g.R.Intn(11)
	if d <= 0 && k >= 7 {
		k = g.R.Intn(7)
	}
	relPath := func() Path {
		p := g.FreePath(1+g.R.Intn(2), names)
		if p.Abs && g.Chance(0.5) {
			return p
		}
		p.Abs = false
		if p.Steps[0].Abbrev == "//" {
			p.Steps = append([]*Step{SelfDot()}, p.Steps...)
		}
		return p
	}
	flat := func() Path { return g.RelFlat(names) }
	switch k {
	case 0: // path existence
		return relPath()
	case 1: // = / != against a string literal
		f := flat()
		if g.Chance(0.3) {
			// the node-set operand on any axis (parent, ancestors, absolute paths ...): it has to be rewound for every candidate
			f = relPath()
		}
		lit := str(g.DirectedString(denot(f, env)))
		if g.Chance(0.4) {
			return bin(g.Pick("=", "!="), lit, f) // the literal on the left: existential over the node-set all the same
		}
		return bin(g.Pick("=", "!="), f, lit)
	case 2: // numeric relational test
		f := flat()
		lit := xref.Num{Lex: g.DirectedNumber(denot(f, env))}
		if g.Chance(0.3) {
			return bin(g.Pick(ops6...), lit, f)
		}
		return bin(g.Pick(ops6...), f, lit)
	case 3:
		return bin(g.Pick(ops6...), call("count", g.CountArg(names)), num(g.R.Intn(3)))
	case 4:
		f := flat()
		lit := g.Pick("1", "x", "a", "", "0")
		if ns := denot(f, env); len(ns) > 0 && g.Chance(0.6) {
			v := ns[0].StringValue()
			if len(v) > 0 {
				lit = v[:1+g.R.Intn(len(v))]
				if g.Chance(0.3) {
					lit = v[g.R.Intn(len(v)):]
				}
			}
		}
		return call(g.Pick("contains", "starts-with"), f, str(lit))
	case 5:
		// the name functions of the candidate itself (which may be an attribute, a text node ...) or of its first attribute / child
		nm := names[g.R.Intn(len(names))]
		if g.Chance(0.4) {
			nm = AttrNames[g.R.Intn(len(AttrNames))]
		}
		fn := xref.Call{Name: g.Pick("local-name", "local-name", "name")}
		switch g.R.Intn(5) {
		case 0:
			fn.Args = []Expr{Path{Steps: []*Step{{Axis: "attribute", Abbrev: "@", Test: xref.Test{Kind: "*"}}}}}
		case 1:
			fn.Args = []Expr{Path{Steps: []*Step{{Axis: "child", Abbrev: "child", Test: xref.Test{Kind: g.Pick("*", "node")}}}}}
		}
		return bin(g.Pick("=", "!="), fn, str(nm))
	case 6:
		return call("not", relPath())
	case 7:
		return call("not", g.BoolPred(d-1, env))
	case 8:
		return bin(g.Pick("and", "or"), g.BoolPred(d-1, env), g.BoolPred(d-1, env))
	case 9: // cursor-hostile and/or
		l, r := g.CursorMover(names), g.ContextSensitive(env)
		if g.Chance(0.3) {
			l = call("not", l)
		}
		return bin(g.Pick("and", "or"), l, r)
	default: // predicate nested inside the predicate's own path
		p := relPath()
		last := p.Steps[len(p.Steps)-1]
		if last.Abbrev == "." || last.Abbrev == ".." || last.Abbrev == "//" {
			last.Abbrev = ""
		}
		last.Preds = append(last.Preds, g.BoolPred(d-1, env))
		return p
	}
}

// AddPreds attaches boolean predicates to steps of p (at least one).
func (g *G) AddPreds(p *Path, depth int, env *Env) {
	any := false
	for _, s := range p.Steps {
		if s.Abbrev == "//" {
			continue
		}
		if g.Chance(0.5) {
			if s.Abbrev == "." || s.Abbrev == ".." {
				s.Abbrev = ""
			}
			np := 1
			if g.Chance(0.25) {
				np = 2
			}
			for i := 0; i < np; i++ {
				s.Preds = append(s.Preds, g.BoolPred(depth, env))
			}
			any = true
		}
	}
	if !any {
		s := p.Steps[len(p.Steps)-1]
		if s.Abbrev == "//" {
			s = &Step{Axis: "child", Abbrev: "child", Test: g.NodeTest("child", env.names())}
			p.Steps = append(p.Steps, s)
		}
		if s.Abbrev == "." || s.Abbrev == ".." {
			s.Abbrev = ""
		}
		s.Preds = append(s.Preds, g.BoolPred(depth, env))
	}
}

// PredPath: a path whose steps - or the parenthesised path - carry boolean predicates (C02).
func (g *G) PredPath(depth int, env *Env) Expr {
	p := g.FreePath(1+g.R.Intn(3), env.names())
	if g.Chance(0.2) {
		// parenthesised path with one or two predicates
		if g.Chance(0.5) {
			g.AddPreds(&p, depth, env)
		}
		preds := []Expr{g.BoolPred(depth, env)}
		if g.Chance(0.4) {
			preds = append(preds, g.BoolPred(depth, env))
		}
		return xref.Filter{X: xref.Group{X: p}, Preds: preds}
	}
	g.AddPreds(&p, depth, env)
	return p
}

// PosPred: a positional predicate (C03).
func (g *G) PosPred(maxN int) Expr {
	n := func() Expr { return num(g.R.Intn(maxN + 2)) }
	n1 := func() Expr { return num(1 + g.R.Intn(maxN+1)) }
	switch g.R.Intn(8) {
	case 0, 1:
		return n1()
	case 2:
		return bin(g.Pick(ops6...), call("position"), n())
	case 3:
		return call("last")
	case 4:
		return bin("-", call("last"), num(g.R.Intn(3)))
	case 5:
		if g.Chance(0.4) {
			return bin(g.Pick("=", "<", "!=", "<=", ">", ">="), call("last"), call("position")) // mirrored: last() first
		}
		return bin(g.Pick("=", "<", "!=", "<=", ">", ">="), call("position"), call("last"))
	case 6:
		if g.Chance(0.4) {
			return bin("=", bin("-", call("last"), num(1+g.R.Intn(2))), call("position"))
		}
		return bin("=", call("position"), bin("-", call("last"), num(1+g.R.Intn(2))))
	default:
		return bin(g.Pick("=", "<", ">"), n1(), call("position"))
	}
}

// PosPath: positional predicates only as the first predicate of child-axis steps,
// optionally followed by boolean predicates; or (flat path)[n] (C03 fragment).
func (g *G) PosPath(env *Env, maxN int) Expr {
	names := env.names()
	if g.Chance(0.2) {
		fp := g.FlatPath(names)
		if g.Chance(0.3) {
			// flat paths may carry boolean predicates
			for _, s := range fp.Steps {
				if s.Abbrev != "//" && g.Chance(0.4) {
					s.Preds = append(s.Preds, g.BoolPred(0, env))
				}
			}
			if len(fp.Steps) == 2 && fp.Steps[0].Abbrev == "//" && len(fp.Steps[1].Preds) > 0 {
				fp.Steps[1].Preds = nil // "single predicate-free descendant step"
			}
		}
		return xref.Filter{X: xref.Group{X: fp}, Preds: []Expr{num(1 + g.R.Intn(maxN+1))}}
	}
	p := g.FreePath(1+g.R.Intn(3), names)
	var childSteps []*Step
	for _, s := range p.Steps {
		if s.Axis == "child" && s.Abbrev != "//" {
			childSteps = append(childSteps, s)
		}
	}
	if len(childSteps) == 0 {
		s := &Step{Axis: "child", Abbrev: "child", Test: g.NodeTest("child", names)}
		p.Steps = append(p.Steps, s)
		childSteps = append(childSteps, s)
	}
	for i, s := range childSteps {
		if i == 0 || g.Chance(0.3) {
			s.Preds = append(s.Preds, g.PosPred(maxN))
			if g.Chance(0.3) {
				s.Preds = append(s.Preds, g.BoolPred(0, env))
			}
		}
	}
	// other steps may carry boolean predicates (C02)
	for _, s := range p.Steps {
		if s.Abbrev == "//" || s.Axis == "child" {
			continue
		}
		if g.Chance(0.15) {
			if s.Abbrev == "." || s.Abbrev == ".." {
				s.Abbrev = ""
			}
			s.Preds = append(s.Preds, g.BoolPred(0, env))
		}
	}
	return p
}

// StackedPath: a path whose steps carry 2-3 predicates mixing positional and boolean ones in ANY
// order (beyond the C03 fragment; used by the metamorphic monitors C04/C05/C10/C12, which need no
// reference value).
func (g *G) StackedPath(env *Env) Path {
	names := env.names()
	p := g.FreePath(1+g.Intn(3), names)
	for _, s := range p.Steps {
		if s.Abbrev == "//" || g.Chance(0.4) {
			continue
		}
		if s.Abbrev == "." || s.Abbrev == ".." {
			s.Abbrev = ""
		}
		n := 2 + g.Intn(2)
		for i := 0; i < n; i++ {
			switch g.Intn(5) {
			case 0, 1:
				s.Preds = append(s.Preds, g.PosPred(3))
			case 2:
				s.Preds = append(s.Preds, bin(g.Pick("and", "or"), g.PosPred(3), g.PosPred(3)))
			default:
				s.Preds = append(s.Preds, g.BoolPred(0, env))
			}
		}
	}
	return p
}

// FilterStartPath: a path that starts with a filter expression - a parenthesised path or union, possibly
// with predicates, or a node-set function call - continued with '/' or '//' and further steps.
func (g *G) FilterStartPath(env *Env) Expr {
	names := env.names()
	var start Expr
	switch g.Intn(4) {
	case 0:
		start = xref.Group{X: g.FreePath(1+g.Intn(2), names)}
	case 1:
		start = xref.Group{X: bin("|", g.FreePath(1+g.Intn(2), names), g.FreePath(1, names))}
	case 2:
		start = xref.Filter{X: xref.Group{X: g.FreePath(1+g.Intn(2), names)}, Preds: []Expr{g.BoolPred(0, env)}}
	default:
		start = xref.Filter{X: xref.Group{X: g.FlatPath(names)}, Preds: []Expr{num(1 + g.Intn(3))}}
	}
	var steps []*Step
	if g.Chance(0.5) {
		steps = append(steps, DSlash())
	}
	steps = append(steps, g.FreeStep(names))
	if g.Chance(0.3) {
		if g.Chance(0.5) {
			steps = append(steps, DSlash())
		}
		steps = append(steps, g.FreeStep(names))
	}
	return Path{Start: start, Steps: steps}
}

// ArgShape: an argument of arbitrary shape for function calls: paths, arithmetic/comparison/boolean
// operators applied directly to node-sets, unions, filter expressions, literals.
func (g *G) ArgShape(env *Env) Expr {
	names := env.names()
	ns := func() Expr {
		switch g.Intn(4) {
		case 0:
			return g.RelFlat(names)
		case 1:
			return Path{Abs: true, Steps: []*Step{DSlash(), {Axis: "child", Abbrev: "child", Test: g.NodeTest("child", names)}}}
		case 2:
			return g.FreePath(1+g.Intn(2), names)
		default:
			return g.StackedPath(env)
		}
	}
	switch g.Intn(10) {
	case 0, 1:
		return ns()
	case 2:
		return bin(g.Pick("+", "-", "*", "div", "mod"), ns(), g.NumLit())
	case 3:
		return bin(g.Pick("+", "*"), g.NumLit(), ns())
	case 4:
		return bin(g.Pick(ops6...), ns(), ns())
	case 5:
		return bin(g.Pick("and", "or"), ns(), ns())
	case 6:
		return bin("|", ns(), ns())
	case 7:
		return g.FilterStartPath(env)
	case 8:
		return g.StrLit()
	default:
		return xref.Neg{X: ns()}
	}
}

var shapeFuncs = []string{"boolean", "ceiling", "concat", "contains", "count", "ends-with", "floor", "local-name", "lower-case", "name", "normalize-space", "not", "number", "reverse",
	"starts-with", "string", "string-join", "string-length", "substring", "substring-after", "substring-before", "sum", "translate", "matches", "replace"}

// FuncOverShapes: any function applied to arguments of arbitrary shape (typing ignored).
func (g *G) FuncOverShapes(env *Env) Expr {
	f := shapeFuncs[g.Intn(len(shapeFuncs))]
	ar := xref.FuncArity[f]
	n := ar[0]
	if ar[1] < 0 {
		n += g.Intn(3)
	} else if ar[1] > ar[0] && g.Chance(0.5) {
		n = ar[1]
	}
	var args []Expr
	for i := 0; i < n; i++ {
		a := g.ArgShape(env)
		switch {
		case f == "substring" && i >= 1:
			a = g.FiniteNum()
		case (f == "matches" || f == "replace") && i == 1:
			a = str(g.Pick("a", "[0-9]+", "(a)(b)?", "^x", "b*"))
		}
		args = append(args, a)
	}
	return call(f, args...)
}
