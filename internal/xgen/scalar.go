package xgen

import (
	"fmt"

	"verif/internal/xref"
)

// ---------- C08: numbers ----------

var NumLexemes = []string{"0", "1", "2", "3", "10", "2.5", "0.5", "007", "100", ".5", "3.", "12345.678", "999999", "0.001"}

func (g *G) NumLit() Expr { return xref.Num{Lex: NumLexemes[g.R.Intn(len(NumLexemes))]} }

// NumStrings are the lexical classes of strings handed to number(): plain decimals, signed,
// padded, non-numeric, empty, and the forms Go accepts but XPath does not.
var NumStrings = []string{"12", "abc", "", "-4", "1.5", "x1", " 12 ", "\t7\n", "1e3", "+5", "Inf", "0x10", "1_0", "-", ".", "-.5", "5.", "1.2.3", "NaN", "--1", "- 1", "1 2", "infinity", "1E2", "0.0", "-0"}

// NumExpr: a number-typed expression tree of depth <= d (C08 fragment).
func (g *G) NumExpr(d int, env *Env) Expr {
	names := env.names()
	k := g.R.Intn(12)
	if d <= 0 {
		k = g.R.Intn(4)
	}
	switch k {
	case 0, 1:
		return g.NumLit()
	case 2:
		fn := g.Pick("count", "sum", "number", "string-length")
		// C08 quantifies over count()/sum()/number()/string-length() of FLAT paths only
		return call(fn, g.RelFlat(names))
	case 3:
		return call("number", str(NumStrings[g.R.Intn(len(NumStrings))]))
	case 4:
		return xref.Neg{X: g.NumExpr(d-1, env)}
	case 5, 6, 7:
		return bin(g.Pick("+", "-", "*", "div"), g.NumExpr(d-1, env), g.NumExpr(d-1, env))
	case 8:
		return call(g.Pick("floor", "ceiling"), g.NumExpr(d-1, env))
	case 9:
		return bin("mod", xref.Num{Lex: fmt.Sprint(g.R.Intn(50))}, xref.Num{Lex: fmt.Sprint(1 + g.R.Intn(9))})
	case 10:
		// NaN / infinity producers
		switch g.R.Intn(3) {
		case 0:
			return bin("div", g.NumLit(), num(0))
		case 1:
			return bin("div", xref.Neg{X: g.NumLit()}, num(0))
		default:
			return bin("div", num(0), num(0))
		}
	default:
		return xref.Group{X: g.NumExpr(d-1, env)}
	}
}

// FiniteSmall reports whether string(f) is in the C08 fragment: finite and |f| < 10^6.
func FiniteSmall(f float64) bool {
	return f == f && f > -1e6 && f < 1e6
}

// ---------- C09: strings ----------

var StrAlphabet = []string{"", " ", "a", "ab", "abc", "  a  b ", "x", "10", "A-b", "hello world", "12345", "\t a \n", "aXbXc", "XX"}

func (g *G) StrLit() Expr { return str(StrAlphabet[g.R.Intn(len(StrAlphabet))]) }

// StrArg: a string-typed argument: literal, nested string function, or flat node-set.
func (g *G) StrArg(d int, env *Env) Expr {
	if d <= 0 || g.Chance(0.4) {
		if g.Chance(0.3) {
			return g.RelFlat(env.names())
		}
		return g.StrLit()
	}
	return g.StrExpr(d-1, env)
}

func (g *G) FiniteNum() Expr {
	n := xref.Num{Lex: g.Pick("0", "1", "2", "3", "4", "5", "6", "10", "1.5", "2.5", "0.5", "1.4", "2.6", "100", "0.49", "3.5")}
	if g.Chance(0.3) {
		return xref.Neg{X: n}
	}
	return n
}

// StrExpr: a string-valued function call (C09 fragment).
func (g *G) StrExpr(d int, env *Env) Expr {
	switch g.R.Intn(12) {
	case 0:
		n := 2 + g.R.Intn(3)
		if g.Chance(0.15) {
			n = 5 + g.R.Intn(6) // long argument lists: every argument contributes, in order
		}
		var args []Expr
		for i := 0; i < n; i++ {
			args = append(args, g.StrArg(d, env))
		}
		return call("concat", args...)
	case 1:
		return call(g.Pick("substring-before", "substring-after"), g.StrArg(d, env), g.StrArg(d, env))
	case 2, 3, 4:
		args := []Expr{g.StrArg(d, env), g.FiniteNum()}
		if g.Chance(0.7) {
			args = append(args, g.FiniteNum())
		}
		return call("substring", args...)
	case 5:
		return call("normalize-space", g.StrArg(d, env))
	case 6:
		from, to := str(g.Pick("ab", "abc", "X", "", "aa", " ", "abX", "aba", "10")), str(g.Pick("AB", "x", "", "XYZ", "A", "xy"))
		if g.Chance(0.3) {
			// node-set arguments in any position (string-value of the first node)
			if g.Chance(0.5) {
				return call("translate", g.StrArg(d, env), from, g.RelFlat(env.names()))
			}
			return call("translate", g.StrArg(d, env), g.RelFlat(env.names()), to)
		}
		return call("translate", g.StrArg(d, env), from, to)
	case 7:
		return call("lower-case", g.StrArg(d, env))
	case 8:
		return call("string-join", g.RelFlat(env.names()), str(g.Pick(",", "", "--")))
	case 9:
		return call("string", g.StrArg(d, env))
	case 10:
		return call("string", g.RelFlat(env.names()))
	default:
		return g.StrLit()
	}
}

// StrFuncTop: any C09 function at the top (string, boolean or number valued).
func (g *G) StrFuncTop(d int, env *Env) Expr {
	switch g.R.Intn(6) {
	case 0:
		return call(g.Pick("contains", "starts-with", "ends-with"), g.StrArg(d, env), g.StrArg(d-1, env))
	case 1:
		return call("string-length", g.StrArg(d, env))
	default:
		return g.StrExpr(d, env)
	}
}

// ---------- C07: comparisons and boolean operators ----------

// Aborter: an expression that compiles but aborts evaluation deliberately when evaluated
// (an argument-type complaint), used to observe short-circuit evaluation.
func Aborter() Expr { return call("starts-with", num(1), num(2)) }

// CmpExpr: comparisons and boolean operators within the C07 type combinations.
func (g *G) CmpExpr(d int, env *Env) Expr {
	names := env.names()
	numE := func() Expr { return g.NumExpr(1, env) }
	ns := func() Expr { return g.RelFlat(names) }
	boolE := func() Expr {
		if d > 0 {
			return g.CmpExpr(d-1, env)
		}
		return call(g.Pick("true", "false"))
	}
	any := func() Expr {
		switch g.R.Intn(4) {
		case 0:
			return numE()
		case 1:
			return g.StrLit()
		case 2:
			return ns()
		default:
			return boolE()
		}
	}
	switch g.R.Intn(15) {
	case 0:
		return bin(g.Pick(ops6...), numE(), numE())
	case 1, 2:
		f := ns()
		return bin(g.Pick(ops6...), f, xref.Num{Lex: g.DirectedNumber(denot(f, env))})
	case 3:
		f := ns()
		return bin(g.Pick(ops6...), xref.Num{Lex: g.DirectedNumber(denot(f, env))}, f)
	case 4:
		return bin(g.Pick("=", "!="), g.StrLit(), g.StrLit())
	case 5:
		f := ns()
		return bin(g.Pick("=", "!="), f, str(g.DirectedString(denot(f, env))))
	case 6:
		f := ns()
		return bin(g.Pick("=", "!="), str(g.DirectedString(denot(f, env))), f)
	case 7:
		return bin(g.Pick("=", "!="), ns(), ns())
	case 8, 9:
		return bin(g.Pick("and", "or"), any(), any())
	case 10:
		if g.Chance(0.5) {
			return call("not", ns())
		}
		return call("not", boolE())
	case 11:
		return call("boolean", any())
	case 12:
		// short-circuit: the right operand would abort if it were evaluated
		if g.Chance(0.5) {
			return bin("or", TrueExpr(g, env), Aborter())
		}
		return bin("and", FalseExpr(g, env), Aborter())
	case 13:
		// cursor-hostile and/or at the top level
		l, r := g.CursorMover(names), g.ContextSensitive(env)
		if g.Chance(0.3) {
			l = call("not", l)
		}
		return bin(g.Pick("and", "or"), l, r)
	default:
		// NaN / signed zero / empty string truth values
		return call("boolean", []Expr{bin("div", num(0), num(0)), xref.Neg{X: num(0)}, num(0), str(""), str("0"), str("false"),
			call("number", str("x")), bin("*", num(0), xref.Neg{X: num(1)})}[g.R.Intn(8)])
	}
}

// TrueExpr / FalseExpr: expressions of varying types whose boolean value is known.
func TrueExpr(g *G, env *Env) Expr {
	switch g.R.Intn(5) {
	case 0:
		return call("true")
	case 1:
		return num(1 + g.R.Intn(5))
	case 2:
		return str(g.Pick("a", "0", "false", " "))
	case 3:
		return Path{Steps: []*Step{SelfDot()}}
	default:
		return bin("=", num(1), num(1))
	}
}

func FalseExpr(g *G, env *Env) Expr {
	switch g.R.Intn(5) {
	case 0:
		return call("false")
	case 1:
		return num(0)
	case 2:
		return str("")
	case 3:
		return Path{Steps: []*Step{{Axis: "child", Abbrev: "child", Test: Test{Kind: "name", Local: "nonexistent"}}}}
	default:
		return bin("div", num(0), num(0))
	}
}
