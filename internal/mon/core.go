// Package mon holds the monitors: one deciding oracle per property, observing
// executions of the real engine through the harness navigator.
package mon

import (
	"fmt"
	"hash/fnv"
	"sort"
	"strings"

	"verif/internal/xgen"
)

// Violation is one refuting observation, with everything needed to understand and replay it.
type Violation struct {
	Property string                 `json:"property"`
	Family   string                 `json:"family"`
	Index    int                    `json:"index"`
	Kind     string                 `json:"kind"`
	Detail   map[string]interface{} `json:"detail"`
}

// Report accumulates what a run observed. It is merged across worker processes.
type Report struct {
	Evals      int64            `json:"evals"`      // engine executions
	Cases      int64            `json:"cases"`      // cases announced
	Skipped    map[string]int64 `json:"skipped"`    // reason -> count (out-of-fragment, rejected by Compile where allowed, ...)
	Counters   map[string]int64 `json:"counters"`   // coverage counters (iterator types, dimensions, ...)
	Nontrivial []uint64         `json:"nontrivial"` // hashes of distinct non-trivial cases
	Samples    []interface{}    `json:"samples"`
	Violations []Violation      `json:"violations"`
	NViol      int64            `json:"nviol"`
	NavOps     int64            `json:"nav_ops"`
	MaxOps     int64            `json:"max_ops"` // largest navigator-op count of a single evaluation
	Harness    []string         `json:"harness_errors"`

	nt map[uint64]struct{}
}

func NewReport() *Report {
	return &Report{Skipped: map[string]int64{}, Counters: map[string]int64{}, nt: map[uint64]struct{}{}}
}

const maxSamples = 12
const maxViolations = 25

func (r *Report) Finish() {
	r.Nontrivial = r.Nontrivial[:0]
	for h := range r.nt {
		r.Nontrivial = append(r.Nontrivial, h)
	}
	sort.Slice(r.Nontrivial, func(i, j int) bool { return r.Nontrivial[i] < r.Nontrivial[j] })
}

// Merge adds o (read back from a worker result file) into r.
func (r *Report) Merge(o *Report) {
	r.Evals += o.Evals
	r.Cases += o.Cases
	r.NavOps += o.NavOps
	r.NViol += o.NViol
	if o.MaxOps > r.MaxOps {
		r.MaxOps = o.MaxOps
	}
	for k, v := range o.Skipped {
		r.Skipped[k] += v
	}
	for k, v := range o.Counters {
		r.Counters[k] += v
	}
	for _, h := range o.Nontrivial {
		r.nt[h] = struct{}{}
	}
	for _, s := range o.Samples {
		if len(r.Samples) < maxSamples {
			r.Samples = append(r.Samples, s)
		}
	}
	for _, v := range o.Violations {
		if len(r.Violations) < maxViolations {
			r.Violations = append(r.Violations, v)
		}
	}
	r.Harness = append(r.Harness, o.Harness...)
}

func (r *Report) Distinct() int { return len(r.nt) }

// Case is the execution context of one case of one family.
type Case struct {
	Prop   string
	Family string
	Index  int
	Seed   int64
	Tier   string
	Rep    *Report
	Replay bool // verbose single-case re-execution
	nviol  int
}

// G returns the case's own PRNG stream (further split by salts).
func (c *Case) G(salts ...int64) *xgen.G {
	all := append([]int64{xgen.Salt(c.Prop + "/" + c.Family), int64(c.Index)}, salts...)
	return xgen.New(c.Seed, all...)
}

// GShared returns a PRNG stream shared by all cases with the same key (e.g. a document pool).
func (c *Case) GShared(key string, n int64) *xgen.G {
	return xgen.New(c.Seed, xgen.Salt(c.Prop+"/"+key), n)
}

func (c *Case) Violation(kind string, detail map[string]interface{}) {
	if strings.Contains(kind, "NON-TERMINATION") {
		c.Rep.Counters["nonterminating_evaluations"]++ // each one costs a full op budget: the worker stops after three
	}
	c.nviol++
	c.Rep.NViol++
	if len(c.Rep.Violations) < maxViolations {
		c.Rep.Violations = append(c.Rep.Violations, Violation{Property: c.Prop, Family: c.Family, Index: c.Index, Kind: kind, Detail: detail})
	}
	if c.Replay {
		fmt.Printf("  violation kind=%s\n", kind)
		keys := make([]string, 0, len(detail))
		for k := range detail {
			keys = append(keys, k)
		}
		sort.Strings(keys)
		for _, k := range keys {
			fmt.Printf("    %s: %v\n", k, detail[k])
		}
	}
}

func (c *Case) Violated() bool { return c.nviol > 0 }

// Nontrivial records a distinct non-trivial case under key.
func (c *Case) Nontrivial(key string) {
	if len(c.Rep.nt) >= maxDistinctPerWorker {
		// counted conservatively: beyond the cap distinct cases are no longer recorded (the counter says how many were dropped)
		c.Rep.Counters["nontrivial_not_recorded_beyond_cap"]++
		return
	}
	h := fnv.New64a()
	h.Write([]byte(key))
	c.Rep.nt[h.Sum64()] = struct{}{}
}

const maxDistinctPerWorker = 1_500_000

func (c *Case) Count(name string)           { c.Rep.Counters[name]++ }
func (c *Case) CountN(name string, n int64) { c.Rep.Counters[name] += n }
func (c *Case) Skip(reason string)          { c.Rep.Skipped[reason]++ }

func (c *Case) Sample(s interface{}) {
	if len(c.Rep.Samples) < maxSamples {
		c.Rep.Samples = append(c.Rep.Samples, s)
	}
}

// SampleEvery keeps the sample when the case index is a multiple of every (spreads samples over a run).
func (c *Case) SampleEvery(every int, s func() interface{}) {
	if len(c.Rep.Samples) < maxSamples && c.Index%every == 0 {
		c.Rep.Samples = append(c.Rep.Samples, s())
	}
}

func (c *Case) Logf(format string, a ...interface{}) {
	if c.Replay {
		fmt.Printf("  "+format+"\n", a...)
	}
}

// InjectAborts runs, every 8th case, a few evaluations that ABORT half-way (deliberate argument-type
// complaints and invalid dynamic patterns raised after part of the work was done) and recovers from
// them, as a caller of the library would. A correct engine is unaffected: no value computed afterwards
// may depend on them. Global scratch state handed back dirty after a panic (pools, caches) shows up
// in whatever the monitors check next.
func (c *Case) InjectAborts() {
	if c.Index%8 != 0 {
		return
	}
	injectAborts(c)
}

// Family is a list of cases: N(tier) cases, each executed by Run.
type Family struct {
	// CPUBudget (seconds) overrides the worker's per-case CPU budget for families whose inputs are tiny.
	CPUBudget int
	Name      string
	N         func(tier string) int
	Run       func(c *Case)
}

// Monitor is the check of one property.
type Monitor struct {
	ID       string
	Level    string // evidence level
	Rule     string // how cases are generated and what makes one non-trivial
	Assume   []string
	Families []Family
	Race     bool // must run in a -race build
	// MinNontrivial is the floor of distinct non-trivial cases below which a run is inconclusive.
	MinNontrivial func(tier string) int
	// Required lists counters that must be non-zero: observations the HARNESS controls (grid cells, relations
	// exercised, overlapping operations), never names of the engine's internals - iterator types reached
	// (VerifQueryShape) are recorded as evidence only, so that a refactoring of internals cannot make a run inconclusive.
	Required []string
	// Exhaustive names the families that enumerate a finite space completely (independent of the seed).
	Exhaustive []string
	// Post runs in the driver after all workers finished (e.g. to analyse race logs).
	Post func(rep *Report, workdir string, tier string)
}

var Registry = map[string]*Monitor{}

func Register(m *Monitor) { Registry[m.ID] = m }

func tierN(quick, thorough int) func(string) int {
	return func(t string) int {
		if t == "thorough" {
			return thorough
		}
		return quick
	}
}
