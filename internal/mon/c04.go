package mon

import (
	"fmt"
	"math"
	"strings"

	"github.com/antchfx/xpath"

	"verif/internal/xdoc"
	"verif/internal/xgen"
	"verif/internal/xref"
)

// C04 - a compiled expression is a pure function of (document, context node).
//
// Oracle (metamorphic, no reference needed): every observation made on a USED *Expr equals the
// same observation on a freshly compiled *Expr: full delivery sequences (order and duplicates),
// exact scalar values and dynamic types, abort classes. Histories mix Select and Evaluate,
// several documents (so MoveTo fails across documents), arbitrary contexts, partial
// consumption, and iterators left open and advanced later, interleaved with later operations.

func init() {
	Register(&Monitor{
		ID:    "C04",
		Level: "exploration",
		Rule: "histories of 2-12 operations on ONE compiled expression, each (Select|Evaluate) x (document out of a pool of 8) x (context) x (consume nothing | a prefix of k nodes | everything | everything + 3 extra MoveNext), iterators may stay open and be advanced later; after every operation the observation is compared with the same operation on a fresh Compile. Expressions come from every generator (free/predicate/positional paths, unions, comparisons incl. ancestor::x = '' style, arithmetic, string functions). " +
			"Non-trivial: the compared observation is a non-empty sequence or a non-default scalar AND the expression had been used before; distinct by (expression text, history step, document, context, mode).",
		Assume:        []string{"Compile is deterministic (two compilations of one text behave alike when fresh) - itself checked by comparing two fresh compilations at the first step"},
		MinNontrivial: tierN(20000, 300000),
		Required:      []string{"mode:select", "mode:evaluate", "consume:none", "consume:prefix", "consume:all", "consume:extra", "resume_open_iterator", "cross_document"},
		Families: []Family{
			witnessFamily("C04"),
			{Name: "hist", N: tierN(300000, 10000000), Run: c04History},
		},
	})
}

// anyExpr draws from every generator of the harness.
func anyExpr(g *xgen.G, env *xgen.Env) xref.Expr {
	switch g.Intn(21) {
	case 18, 19, 20:
		// a function that keeps its argument queries in a closure, over a path whose steps carry stacked (boolean then
		// positional) predicates: state that survives in the closure or in a shared clone shows at the second evaluation
		arg := func() xref.Expr {
			if g.Chance(0.3) {
				return xref.Filter{X: xref.Group{X: g.StackedPath(env)}, Preds: []xref.Expr{g.PosPred(3)}}
			}
			return g.StackedPath(env)
		}
		switch f := g.Pick("string-join", "concat", "count", "sum", "string", "normalize-space", "contains", "starts-with", "string-length", "translate", "number", "boolean", "not", "local-name", "name", "substring", "lower-case", "reverse", "substring-before", "ends-with"); f {
		case "string-join":
			return xref.Call{Name: f, Args: []xref.Expr{arg(), xref.Str{V: g.Pick(",", "", "|")}}}
		case "concat":
			return xref.Call{Name: f, Args: []xref.Expr{arg(), xref.Str{V: "-"}, arg()}}
		case "contains", "starts-with", "ends-with", "substring-before":
			if g.Chance(0.5) {
				return xref.Call{Name: f, Args: []xref.Expr{arg(), xref.Str{V: g.Pick("1", "a", "x", "")}}}
			}
			return xref.Call{Name: f, Args: []xref.Expr{xref.Str{V: g.Pick("10", "abc", "x1")}, arg()}}
		case "translate":
			return xref.Call{Name: f, Args: []xref.Expr{arg(), xref.Str{V: "abc1"}, xref.Str{V: "ABC_"}}}
		case "substring":
			return xref.Call{Name: f, Args: []xref.Expr{arg(), xref.Num{Lex: g.Pick("1", "2")}}}
		default:
			return xref.Call{Name: f, Args: []xref.Expr{arg()}}
		}
	case 11:
		return g.StackedPath(env)
	case 12, 16, 17:
		// a scalar expression over stacked-predicate operands
		// (stateful operands on either side: a Clone that shares one of them shows on the second use)
		operand := func() xref.Expr {
			switch g.Intn(6) {
			case 0:
				return xref.Str{V: g.Pick("10", "x", "")}
			case 1:
				return xref.Num{Lex: g.Pick("1", "3", "10")}
			case 2:
				return g.RelFlat(env.Names)
			case 3:
				return g.FilterStartPath(env)
			case 4:
				return xref.Filter{X: xref.Group{X: g.StackedPath(env)}, Preds: []xref.Expr{xref.Call{Name: "last"}}}
			default:
				return g.StackedPath(env)
			}
		}
		return xref.Bin{Op: g.Pick("=", "!=", "<", ">=", "+", "-", "and", "or", "|"), L: operand(), R: operand()}
	case 13:
		return g.FilterStartPath(env)
	case 14, 15:
		return g.FuncOverShapes(env)
	case 0:
		return g.FreePath(1+g.Intn(3), env.Names)
	case 1, 2:
		return g.PredPath(1+g.Intn(2), env)
	case 3:
		return g.PosPath(env, 4)
	case 4:
		return g.CmpExpr(1, env)
	case 5:
		return g.NumExpr(3, env)
	case 6:
		return g.StrFuncTop(2, env)
	case 7:
		return xref.Bin{Op: "|", L: g.FreePath(2, env.Names), R: g.FreePath(1, env.Names)}
	case 8:
		// comparisons whose first evaluation leaves an iterator half consumed
		return xref.Bin{Op: g.Pick("=", "!="), L: g.RelFreePath(1+g.Intn(2), env.Names), R: xref.Str{V: g.Pick("", "x", "10")}}
	case 9:
		return xref.Call{Name: g.Pick("count", "boolean", "not", "string", "sum"), Args: []xref.Expr{g.PredPath(1, env)}}
	default:
		return xref.Call{Name: "reverse", Args: []xref.Expr{g.FreePath(1+g.Intn(2), env.Names)}}
	}
}

type openIter struct {
	used, fresh *xpath.NodeIterator
	d           *xdoc.Doc
	desc        string
}

// step advances it by up to k nodes (k < 0: to the end, then extra more MoveNext calls) and
// returns a digest of what happened.
func (c *Case) pull(it *xpath.NodeIterator, d *xdoc.Doc, k, extra int) (digest string, n int, done bool) {
	var sb strings.Builder
	rec := &xdoc.Rec{Limit: OpLimit}
	_ = rec
	defer func() {
		if x := recover(); x != nil {
			pi, budget := classify(x)
			if budget {
				sb.WriteString(" NON-TERMINATION")
			} else {
				fmt.Fprintf(&sb, " PANIC(%s runtime=%v)", pi.Type, pi.Runtime)
			}
			digest, done = sb.String(), true
		}
	}()
	for i := 0; k < 0 || i < k; i++ {
		if !it.MoveNext() {
			done = true
			break
		}
		nd := xdoc.NodeOf(it.Current())
		if nd == nil || nd.Doc != d {
			sb.WriteString("?foreign ")
		} else {
			fmt.Fprintf(&sb, "%d ", nd.Ord)
		}
		n++
		if n > 20000 {
			sb.WriteString("...CAP")
			done = true
			break
		}
	}
	if done {
		sb.WriteString("END")
		for i := 0; i < extra; i++ {
			if it.MoveNext() {
				sb.WriteString(" TRUE-AFTER-END")
			}
		}
	}
	return sb.String(), n, done
}

func c04History(c *Case) {
	if !c.Canary(200) {
		return
	}
	g := c.G()
	docs := c.docPool("docs", 8, func(dg *xgen.G) *xdoc.Doc {
		if dg.Chance(0.3) {
			return dg.WideTree(4, 4)
		}
		return dg.Tree(xgen.DefaultTree())
	})
	if c.Index%6 == 4 {
		docs = append(append([]*xdoc.Doc(nil), docs...), c.docPool("deep", 2, func(dg *xgen.G) *xdoc.Doc { return dg.DeepTree() })...)
	}
	d0 := docs[g.Intn(len(docs))]
	env := &xgen.Env{Doc: d0, Ctx: pickCtx(g, d0), Names: xgen.Names}
	e := anyExpr(g, env)
	src := xref.Render(e)
	if g.Chance(0.15) {
		// token-level text that ignores typing: evaluations that abort deliberately are part of a history too
		src = g.TokExpr(1+g.Intn(3), false)
	}
	compileFn := safeCompile
	if c.Index%10 == 7 {
		// an expression compiled WITH a namespace map, used in turn on documents whose navigator exposes
		// namespace URIs and on documents whose navigator does not
		docs = c.docPool("nsdocs", 8, func(dg *xgen.G) *xdoc.Doc { return dg.NSTree(dg.Chance(0.5)) })
		m := map[string]string{"x": xgen.NSURIs[0], "y": xgen.NSURIs[1], "z": xgen.NSURIs[2], "p": xgen.NSURIs[g.Intn(3)]}
		elems, attrs := docQNames(docs[g.Intn(len(docs))])
		var ne xref.Expr = c14Path(g, elems, attrs, []string{"x", "y", "z", "p"}, true)
		if g.Chance(0.3) {
			ne = xref.Call{Name: g.Pick("count", "string", "name", "boolean"), Args: []xref.Expr{ne}}
		}
		src = xref.Render(ne)
		compileFn = func(s string) (*xpath.Expr, error) { return xpath.CompileWithNS(s, m) }
		c.Count("history:namespace-map-two-navigator-kinds")
	}
	if xgen.CostEstimateText(src, 130) > xgen.MaxCost*20 {
		c.Skip("estimated engine cost beyond the bounded workload (see xgen.CostEstimate)")
		return
	}
	used, err := compileFn(src)
	if err != nil {
		c.Skip("rejected by Compile (the business of other properties)")
		return
	}
	// navigator kind of this history: the harness default (MoveTo refuses other documents), or a navigator
	// whose MoveTo adopts any position, also one in another document (the interface promises no document check)
	mkNav := xdoc.NewNav
	if c.Index%5 == 3 && c.Index%10 != 7 {
		mkNav = xdoc.NewNavAnyMove
		c.Count("navigator:moveto-adopts-any-document")
	}
	c.recordShape(queryShape(used))
	var open []openIter
	var hist []string
	nsteps := 2 + g.Intn(11)
	var lastDoc *xdoc.Doc
	for step := 0; step < nsteps; step++ {
		// sometimes resume an iterator left open earlier instead of starting a new operation
		if len(open) > 0 && g.Chance(0.25) {
			i := g.Intn(len(open))
			o := open[i]
			k := 1 + g.Intn(3)
			if g.Chance(0.3) {
				k = -1
			}
			du, _, doneU := c.pull(o.used, o.d, k, 2)
			df, _, _ := c.pull(o.fresh, o.d, k, 2)
			c.Rep.Evals += 2
			c.Count("resume_open_iterator")
			hist = append(hist, fmt.Sprintf("resume(%s, k=%d)", o.desc, k))
			if du != df {
				c.Violation("USED-DIFFERS-FROM-FRESH", map[string]interface{}{"expr": src, "history": hist, "step": step, "operation": "resume " + o.desc,
					"used": du, "fresh": df, "doc": o.d.XML()})
				return
			}
			if strings.Contains(du, "NON-TERMINATION") {
				c.Violation("NON-TERMINATION", map[string]interface{}{"expr": src, "history": hist, "step": step, "operation": "resume " + o.desc,
					"observed": du, "doc": o.d.XML()})
				return
			}
			if doneU {
				open = append(open[:i], open[i+1:]...)
			}
			continue
		}
		d := docs[g.Intn(len(docs))]
		if lastDoc != nil && d != lastDoc {
			c.Count("cross_document")
		}
		lastDoc = d
		ctx := d.Nodes[g.Intn(len(d.Nodes))]
		if g.Chance(0.3) {
			ctx = d.Root
		}
		fresh, ferr := compileFn(src)
		if ferr != nil {
			panic("C04: second compilation rejected")
		}
		useEval := g.Chance(0.5)
		cons := g.Intn(4) // 0 none, 1 prefix, 2 all, 3 all + extra
		k, extra := -1, 0
		switch cons {
		case 0:
			k = 0
			c.Count("consume:none")
		case 1:
			k = 1 + g.Intn(3)
			c.Count("consume:prefix")
		case 2:
			c.Count("consume:all")
		default:
			extra = 3
			c.Count("consume:extra")
		}
		desc := fmt.Sprintf("#%d %s(doc%d,%s) consume=%d", step, map[bool]string{true: "Evaluate", false: "Select"}[useEval], indexOf(docs, d), ctx.Label(), cons)
		hist = append(hist, desc)
		var du, df string
		var nu int
		if !useEval {
			c.Count("mode:select")
			iu := used.Select(mkNav(ctx, &xdoc.Rec{Limit: OpLimit}))
			ifr := fresh.Select(mkNav(ctx, &xdoc.Rec{Limit: OpLimit}))
			var doneU bool
			du, nu, doneU = c.pull(iu, d, k, extra)
			df, _, _ = c.pull(ifr, d, k, extra)
			if !doneU && len(open) < 4 {
				open = append(open, openIter{iu, ifr, d, desc})
			}
		} else {
			c.Count("mode:evaluate")
			var iu, ifr *xpath.NodeIterator
			du, iu = c.evalDigest(used, ctx, mkNav)
			df, ifr = c.evalDigest(fresh, ctx, mkNav)
			if iu != nil && ifr != nil {
				var doneU bool
				var su, sf string
				su, nu, doneU = c.pull(iu, d, k, extra)
				sf, _, _ = c.pull(ifr, d, k, extra)
				du, df = du+su, df+sf
				if !doneU && len(open) < 4 {
					open = append(open, openIter{iu, ifr, d, desc})
				}
			} else if (iu == nil) != (ifr == nil) {
				du, df = du+" (iterator)", df+" (other)"
			} else if du != "" && du != "bool(false)" && du != "string(\"\")" && du != "number(0)" && du != "number(NaN)" {
				nu = 1
			}
		}
		c.Rep.Evals += 2
		if du != df {
			c.Violation("USED-DIFFERS-FROM-FRESH", map[string]interface{}{"expr": src, "history": hist, "step": step, "operation": desc,
				"used": du, "fresh": df, "doc": d.XML(), "ctx": ctx.Label()})
			return
		}
		if strings.Contains(du, "NON-TERMINATION") {
			// the workload is cost-bounded far below the op budget: a history whose operation does not
			// finish cannot be compared with anything, and every further one would cost a full budget
			c.Violation("NON-TERMINATION", map[string]interface{}{"expr": src, "history": hist, "step": step, "operation": desc,
				"observed": du, "doc": d.XML(), "ctx": ctx.Label()})
			return
		}
		if step > 0 && nu > 0 {
			c.Nontrivial(fmt.Sprintf("%s|%d|%d|%d|%v", src, step, indexOf(docs, d), ctx.Ord, useEval))
		}
	}
	c.SampleEvery(2503, func() interface{} { return map[string]interface{}{"expr": src, "history": hist} })
}

func indexOf(docs []*xdoc.Doc, d *xdoc.Doc) int {
	for i, x := range docs {
		if x == d {
			return i
		}
	}
	return -1
}

// evalDigest calls Evaluate and digests a scalar result (value and dynamic type) or returns the iterator.
func (c *Case) evalDigest(e *xpath.Expr, ctx *xdoc.Node, mkNav func(*xdoc.Node, *xdoc.Rec) xpath.NodeNavigator) (s string, it *xpath.NodeIterator) {
	defer func() {
		if x := recover(); x != nil {
			pi, budget := classify(x)
			if budget {
				s = "NON-TERMINATION"
			} else {
				s = fmt.Sprintf("PANIC(%s runtime=%v)", pi.Type, pi.Runtime)
			}
			it = nil
		}
	}()
	switch v := e.Evaluate(mkNav(ctx, &xdoc.Rec{Limit: OpLimit})).(type) {
	case *xpath.NodeIterator:
		return "", v
	case float64:
		if math.IsNaN(v) {
			return "number(NaN)", nil
		}
		return fmt.Sprintf("number(%v)", v), nil
	case bool:
		return fmt.Sprintf("bool(%v)", v), nil
	case string:
		return fmt.Sprintf("string(%q)", v), nil
	default:
		return fmt.Sprintf("%T(%v)", v, v), nil
	}
}
