package mon

import (
	"fmt"
	"math"

	"github.com/antchfx/xpath"

	"verif/internal/xdoc"
	"verif/internal/xgen"
	"verif/internal/xref"
)

// C10 - expressions parse with XPath 1.0 precedence, associativity and token rules.
//
// (a) the parse tree the real parser built (hook VerifParseTree) equals the tree of the
//     reference parser, both rendered fully parenthesised;
// (b) two whitespace variants of one token sequence have the same parse tree and the same value;
// (c) an abbreviated expression and its expansion have the same parse tree and deliver the same sequence.

func init() {
	Register(&Monitor{
		ID:         "C10",
		Level:      "exploration",
		Exhaustive: []string{"chains (lengths 1-4)", "chainvals"},
		Rule: "(a) exhaustive: all operator chains of length 1..4 over the 14 binary operators (14 + 196 + 2744 + 38416 sequences, thorough: + 537824 quintuples; quick: 20000 sampled quintuples), each in a plain variant and variants with unary minus signs and operands drawn from numbers, strings, paths, function calls, the element names div/mod/and/or, the wildcard *, names containing '-': hook parse tree vs reference parser; and, independent of any tree representation, the VALUE of every chain of length 1..4 over the 13 operators other than '|' with distinct numeric operands (so that different groupings give different values) vs the reference value; " +
			"(b) for every chain and for generated expressions of all kinds: the token list written with no optional whitespace, with conventional spacing and with spaces/tabs/newlines between every pair of tokens must give one parse tree, and (on a document) one value; " +
			"(c) every abbreviation (a, @a, ., .., //) expanded position by position: same parse tree and same delivery sequence. Non-trivial: the chain mixes at least two precedence levels, or the expression has >= 6 tokens; distinct by text.",
		Assume:        []string{"reference tokenizer/parser internal/xref written from the XPath 1.0 EBNF and lexical rules (3.7)", "hook VerifParseTree renders the tree built by the real parser without changing it"},
		MinNontrivial: tierN(40000, 500000),
		Required:      []string{"chainvals", "chains:len1", "chains:len2", "chains:len3", "chains:len4", "chains:len5", "ws:tree", "ws:value", "abbrev:tree", "abbrev:sequence"},
		Families: []Family{
			witnessFamily("C10"),
			{Name: "chains", N: func(t string) int { return c10NumChains(t) }, Run: c10Chains},
			{Name: "chainvals", N: func(string) int { return 13 + 169 + 2197 + 28561 }, Run: c10ChainValues},
			{Name: "longchain", N: tierN(3000, 100000), Run: c10LongChain},
			{Name: "lookalikes", N: func(string) int { return c10LookN() }, Run: c10Lookalikes},
			{Name: "ws", N: tierN(80000, 3000000), Run: c10Whitespace},
			{Name: "abbrev", N: tierN(80000, 3000000), Run: c10Abbrev},
		},
	})
}

const c10Exh = 14 + 196 + 2744 + 38416

func c10NumChains(t string) int {
	if t == "thorough" {
		return c10Exh + 537824
	}
	return c10Exh + 20000
}

// chainOps decodes the case index into an operator sequence.
func chainOps(c *Case) []int {
	i := c.Index
	for n, size := 1, 14; n <= 4; n, size = n+1, size*14 {
		if i < size {
			ops := make([]int, n)
			for k := n - 1; k >= 0; k-- {
				ops[k] = i % 14
				i /= 14
			}
			return ops
		}
		i -= size
	}
	ops := make([]int, 5)
	if c.Tier == "thorough" {
		for k := 4; k >= 0; k-- {
			ops[k] = i % 14
			i /= 14
		}
		return ops
	}
	g := c.G()
	for k := range ops {
		ops[k] = g.Intn(14)
	}
	return ops
}

func parseTree(src string) (string, error) { return xpath.VerifParseTree(src, nil) }

func c10Chains(c *Case) {
	ops := chainOps(c)
	c.Count(fmt.Sprintf("chains:len%d", len(ops)))
	levels := map[int]bool{}
	for _, o := range ops {
		levels[xref.Prec(xgen.BinOps[o])] = true
	}
	for variant := 0; variant < 3; variant++ {
		toks := xgen.Chain(ops, variant*7919+c.Index%7919*(variant))
		std := xref.Join(toks, "std", nil)
		ast, perr := xref.Parse(std)
		if perr != nil {
			panic(fmt.Sprintf("C10: reference parser rejects a generated chain %q: %v", std, perr))
		}
		want := xref.Canon(ast)
		got, err := parseTree(std)
		c.Rep.Evals++
		if err != nil || got != want {
			c.Violation("PARSE-TREE", map[string]interface{}{"expr": std, "expected_tree": want, "observed_tree": got, "error": fmt.Sprint(err)})
			return
		}
		// (b) whitespace variants of the same token list
		for _, mode := range []string{"min", "wide"} {
			txt := xref.Join(toks, mode, c.G(int64(variant)).R)
			g2, err2 := parseTree(txt)
			c.Rep.Evals++
			c.Count("ws:tree")
			if err2 != nil || g2 != want {
				c.Violation("WHITESPACE-CHANGES-PARSE-TREE", map[string]interface{}{"expr": std, "variant": txt, "mode": mode, "tree": want, "variant_tree": g2, "error": fmt.Sprint(err2)})
				return
			}
		}
		if len(levels) >= 2 || variant > 0 {
			c.Nontrivial(std)
		}
	}
	c.SampleEvery(5003, func() interface{} {
		toks := xgen.Chain(ops, 7919)
		s := xref.Join(toks, "std", nil)
		t, _ := parseTree(s)
		return map[string]interface{}{"family": "chains", "expr": s, "tree": t}
	})
}

// evalDigestAny evaluates src on ctx: a scalar value or the full delivery sequence.
func (c *Case) evalDigestAny(src string, ctx *xdoc.Node) (string, bool) {
	ce, err := safeCompile(src)
	if err != nil {
		return "COMPILE-ERROR", false
	}
	r := c.RunEvaluate(ce, ctx)
	if r.Kind == "nodeset" && !r.Aborted() {
		return fmt.Sprint("seq", Ords(r.Nodes)), true
	}
	if r.Kind == "number" && r.F != r.F {
		return "number(NaN)", true
	}
	if r.Panic != nil {
		return fmt.Sprintf("PANIC(%s)", r.Panic.Type), true
	}
	return r.String(), true
}

func c10Whitespace(c *Case) {
	g := c.G()
	d := valueDoc(c.GShared("doc", int64(c.Index/16)))
	ctx := pickCtx(g, d)
	env := &xgen.Env{Doc: d, Ctx: ctx, Names: namesIn(d)}
	e := anyExpr(g, env)
	if c.expensive(e, d) {
		return
	}
	toks := xref.Tokens(e)
	std := xref.Join(toks, "std", nil)
	base, err := parseTree(std)
	c.Rep.Evals++
	if err != nil {
		c.Skip("rejected by the parser (the business of other properties)")
		return
	}
	// the reference parser must agree on operator-free-of-sequence expressions as well
	if ast, perr := xref.Parse(std); perr == nil {
		if want := xref.Canon(ast); want != base {
			c.Violation("PARSE-TREE", map[string]interface{}{"expr": std, "expected_tree": want, "observed_tree": base})
			return
		}
	} else {
		panic(fmt.Sprintf("C10: reference parser rejects %q: %v", std, perr))
	}
	baseVal, _ := c.evalDigestAny(std, ctx)
	for i, mode := range []string{"min", "wide", "wide"} {
		txt := xref.Join(toks, mode, c.G(int64(i)).R)
		t, err := parseTree(txt)
		c.Rep.Evals++
		c.Count("ws:tree")
		if err != nil || t != base {
			c.Violation("WHITESPACE-CHANGES-PARSE-TREE", map[string]interface{}{"expr": std, "variant": txt, "mode": mode, "tree": base, "variant_tree": t, "error": fmt.Sprint(err)})
			return
		}
		v, _ := c.evalDigestAny(txt, ctx)
		c.Count("ws:value")
		if v != baseVal {
			dd := docDetail(d, ctx)
			dd["expr"], dd["variant"], dd["value"], dd["variant_value"] = std, txt, baseVal, v
			c.Violation("WHITESPACE-CHANGES-VALUE", dd)
			return
		}
	}
	if len(toks) >= 6 {
		c.Nontrivial(std)
	}
	c.SampleEvery(3001, func() interface{} {
		return map[string]interface{}{"family": "ws", "std": std, "min": xref.Join(toks, "min", nil), "wide": xref.Join(toks, "wide", c.G(1).R)}
	})
}

func c10Abbrev(c *Case) {
	g := c.G()
	d := valueDoc(c.GShared("doc", int64(c.Index/16)))
	ctx := pickCtx(g, d)
	env := &xgen.Env{Doc: d, Ctx: ctx, Names: namesIn(d)}
	var e xref.Expr
	switch g.Intn(4) {
	case 0:
		e = g.FreePath(1+g.Intn(4), env.Names)
	case 1:
		e = g.PredPath(1, env)
	case 2:
		e = g.PosPath(env, 3)
	default:
		e = anyExpr(g, env)
	}
	if c.expensive(e, d) {
		return
	}
	n := xgen.CountAbbrev(e)
	if n == 0 {
		c.Skip("no abbreviation in the expression")
		return
	}
	src := xref.Render(e)
	base, err := parseTree(src)
	c.Rep.Evals++
	if err != nil {
		c.Skip("rejected by the parser (the business of other properties)")
		return
	}
	baseVal, _ := c.evalDigestAny(src, ctx)
	variants := []xref.Expr{xgen.Expand(e)}
	for k := 0; k < n && k < 6; k++ {
		variants = append(variants, xgen.ExpandOne(e, k))
	}
	for _, x := range variants {
		xs := xref.Render(x)
		t, err := parseTree(xs)
		c.Rep.Evals++
		c.Count("abbrev:tree")
		if err != nil || t != base {
			c.Violation("ABBREVIATION-DIFFERS-FROM-EXPANSION-TREE", map[string]interface{}{"abbreviated": src, "expanded": xs, "tree": base, "expanded_tree": t, "error": fmt.Sprint(err)})
			return
		}
		v, _ := c.evalDigestAny(xs, ctx)
		c.Count("abbrev:sequence")
		if v != baseVal {
			dd := docDetail(d, ctx)
			dd["abbreviated"], dd["expanded"], dd["value"], dd["expanded_value"] = src, xs, baseVal, v
			c.Violation("ABBREVIATION-DIFFERS-FROM-EXPANSION", dd)
			return
		}
	}
	c.Nontrivial(src)
	c.SampleEvery(3001, func() interface{} {
		return map[string]interface{}{"family": "abbrev", "abbreviated": src, "expanded": xref.Render(variants[0]), "positions": n}
	})
}

// c10ChainValues: black-box precedence/associativity check - the value of an unparenthesised chain
// over numeric literals (distinct, non-zero, so that every grouping gives a different value) must be
// the value of the XPath grouping. Needs no hook.
func c10ChainValues(c *Case) {
	ops13 := []string{"or", "and", "=", "!=", "<", "<=", ">", ">=", "+", "-", "*", "div", "mod"}
	i := c.Index
	var ops []string
	for n, size := 1, 13; n <= 4; n, size = n+1, size*13 {
		if i < size {
			ops = make([]string, n)
			for k := n - 1; k >= 0; k-- {
				ops[k] = ops13[i%13]
				i /= 13
			}
			break
		}
		i -= size
	}
	vals := [][]string{{"7", "3", "2", "5", "11"}, {"2", "9", "4", "3", "8"}, {"1", "1", "2", "0.5", "3"}}
	d := valueDoc(c.GShared("gdoc", 0))
	for v, set := range vals {
		for _, minus := range []bool{false, true} {
			var sb []xref.Tok
			for k := 0; k <= len(ops); k++ {
				if minus && (k+v)%2 == 1 {
					sb = append(sb, xref.Tok{S: "-", K: xref.TPunct})
				}
				sb = append(sb, xref.Tok{S: set[k], K: xref.TNumber})
				if k < len(ops) {
					kind := xref.TPunct
					switch ops[k] {
					case "or", "and", "div", "mod":
						kind = xref.TName
					}
					sb = append(sb, xref.Tok{S: ops[k], K: kind, Op: true})
				}
			}
			mode := []string{"std", "min", "wide"}[(c.Index+v)%3]
			src := xref.Join(sb, mode, c.G(int64(v)).R)
			ast, err := xref.Parse(src)
			if err != nil {
				panic(fmt.Sprintf("C10: reference parser rejects chain %q: %v", src, err))
			}
			want, oof := xref.SafeEval(ast, xref.NewCtx(d.Root))
			if oof != "" {
				continue
			}
			if comparesTwoBooleans(ast) {
				// boolean = boolean is outside every property statement (the engine gets it wrong; DESIGN section 5,
				// "observed but outside"): the value could differ although the parse is right
				c.Skip("chain compares two booleans (outside the stated operand combinations)")
				continue
			}
			ce := c.compile(src, func() map[string]interface{} { return map[string]interface{}{} })
			if ce == nil {
				return
			}
			got := c.RunEvaluate(ce, d.Root)
			c.Count("chainvals")
			if !sameValue(got, want) {
				c.Violation("CHAIN-VALUE", map[string]interface{}{"expr": src, "expected": fmtValue(want), "observed": got.String(), "xpath_grouping": xref.Canon(ast)})
				return
			}
			if len(ops) >= 2 {
				c.Nontrivial("v|" + src)
			}
		}
	}
	c.SampleEvery(3001, func() interface{} {
		return map[string]interface{}{"family": "chainvals", "operators": ops, "operands": vals}
	})
}

func isBoolExpr(e xref.Expr) bool {
	switch x := e.(type) {
	case xref.Bin:
		switch x.Op {
		case "or", "and", "=", "!=", "<", "<=", ">", ">=":
			return true
		}
	case xref.Group:
		return isBoolExpr(x.X)
	}
	return false
}

func comparesTwoBooleans(e xref.Expr) bool {
	found := false
	xref.Walk(e, func(x xref.Expr) {
		if b, ok := x.(xref.Bin); ok {
			switch b.Op {
			case "=", "!=", "<", "<=", ">", ">=":
				if isBoolExpr(b.L) && isBoolExpr(b.R) {
					found = true
				}
			}
		}
	})
	return found
}

// c10LongChain: the value of long unparenthesised operator chains (20-400 operators). Shape: comparisons of
// arithmetic sub-chains, joined by and/or - so that no comparison has a boolean operand (outside the stated
// combinations) while all five precedence levels, left associativity and unary minus are mixed at a length no
// exhaustive family reaches (a parser that re-balances, or loses an operand, every k operators shows here).
func c10LongChain(c *Case) {
	g := c.G()
	total := []int{20, 60, 150, 400}[c.Index%4]
	var toks []xref.Tok
	num := func() {
		if g.Chance(0.15) {
			toks = append(toks, xref.Tok{S: "-", K: xref.TPunct})
		}
		toks = append(toks, xref.Tok{S: g.Pick("1", "2", "3", "4", "5", "7", "9", "0.5", "10", "2.5"), K: xref.TNumber})
	}
	op := func(s string) {
		kind := xref.TPunct
		switch s {
		case "or", "and", "div", "mod":
			kind = xref.TName
		}
		toks = append(toks, xref.Tok{S: s, K: kind, Op: true})
	}
	arith := func(n int) {
		num()
		for i := 0; i < n; i++ {
			op(g.Pick("+", "-", "*", "div", "mod", "+", "-", "*"))
			num()
		}
	}
	nops := 0
	shape := c.Index / 4 % 3
	switch shape {
	case 0: // one arithmetic chain
		arith(total)
		nops = total
	default:
		for nops < total {
			a, b := 1+g.Intn(6), 1+g.Intn(6)
			if nops > 0 {
				op(g.Pick("and", "or"))
				nops++
			}
			arith(a)
			if shape == 1 || g.Chance(0.8) {
				op(g.Pick("=", "!=", "<", "<=", ">", ">="))
				arith(b)
				nops += b + 1
			}
			nops += a
		}
	}
	mode := []string{"std", "min", "wide"}[c.Index%3]
	src := xref.Join(toks, mode, c.G(1).R)
	ast, err := xref.Parse(src)
	if err != nil {
		panic(fmt.Sprintf("C10: reference parser rejects chain %q: %v", src, err))
	}
	d := valueDoc(c.GShared("gdoc", 0))
	want, oof := xref.SafeEval(ast, xref.NewCtx(d.Root))
	if oof != "" || comparesTwoBooleans(ast) {
		c.Skip("chain outside the stated operand combinations")
		return
	}
	ce := c.compile(src, func() map[string]interface{} { return map[string]interface{}{} })
	if ce == nil {
		return
	}
	got := c.RunEvaluate(ce, d.Root)
	c.Count("longchain")
	if !sameValue(got, want) {
		show := src
		if len(show) > 600 {
			show = show[:600] + "..."
		}
		c.Violation("CHAIN-VALUE", map[string]interface{}{"expr": src, "shown": show, "operators": nops, "expected": fmtValue(want), "observed": got.String()})
		return
	}
	if f, isNum := want.(float64); isNum && (math.IsNaN(f) || math.IsInf(f, 0)) {
		c.Count("longchain:value-nan-or-infinite")
	} else {
		c.Count("longchain:value-finite-or-boolean")
	}
	c.Nontrivial("lc|" + src)
	c.SampleEvery(301, func() interface{} {
		return map[string]interface{}{"family": "longchain", "operators": nops, "shape": []string{"arithmetic", "comparisons joined by and/or", "mixed"}[shape], "bytes": len(src)}
	})
}

// c10Lookalikes: groups of expression texts that LOOK alike - they differ only in white space, letter case, quote
// characters or the spelling of a number - where some members of a group mean the same and others do not (`a-b` is
// one name, `a - b` a subtraction; `adivb` a name, `a div b` a division). Every member is evaluated through every
// public entry point (Compile, MustCompile, CompileWithNS, the package-level Select), in several orders and twice,
// inside ONE process, and each result is compared with the reference for exactly that text: the meaning of a text
// must not depend on which look-alike was compiled before it.
var c10LookDoc = xdoc.MustParseXML(`<r><x id="1"><a>12</a><b>3</b><a-b>9</a-b><adivb>7</adivb><aandb>1</aandb><amodb>5</amodb><aorb>0</aorb><a--b>2</a--b><A>100</A></x>`+
	`<x id="2"><a>5</a><b>-4</b><a-b>1</a-b><adivb>2</adivb><amodb>1</amodb><A>5</A><t>a  b</t></x><x id="3"><a>9</a><b>0</b><t>a b</t><a.b>4</a.b></x><x id="5"><t>a\</t><a>1</a><b>1</b></x><x id="6"><t>\</t><t>it's</t><a>3</a><b>2</b></x><X id="4"><a>9</a><b>9</b></X></r>`, false)

// numeric members are only ever compared with a number, boolean / node-set members are only used as a predicate
// (the operand combinations the statements cover)
var c10LookNumeric = [][]string{
	{"a-b", "a - b", "a -b", "a  -  b", "a\n-\tb"},
	{"adivb", "a div b", "a  div  b", "a div\nb"},
	{"amodb", "a mod b", "a\tmod\tb"},
	{"a--b", "a - -b", "a- -b", "a --b"},
	{"a.b", "a . b"},
	{"a*b", "a * b", "a *b", "a* b"},
	{"A", "a", "A ", " a"},
	{"a+b", "a + b", "a +b"},
	{"-a", "- a", "--a", "- - a"},
}
var c10LookBoolean = [][]string{
	{"aandb", "a and b", "a  and  b"},
	{"aorb", "a or b", "a   or b"},
	{"t='a  b'", "t = 'a  b'", "t='a b'", "t = 'a b'", "t=\"a b\"", "t = \"a  b\""},
	{"a=9", "a = 9", "a=9.0", "a = 09", "a=' 9'", "a = '9'"},
	{"a|b", "a | b", "a|A", "a | A", "A|a"},
	{"a>1", "a > 1", "a>-1", "a > -1", "a>- 1", "a >= 1", "a>=1", "a> =1"},
	{"A", "a", "X", "x"},
	// a Number token denotes the double nearest to its spelling, however many digits it has
	{"1.14 = number('1.14')", "1.14=number('1.14')", "4.56 = number('4.56')", "0.1234567890123456789 = number('0.1234567890123456789')", "3.14159265358979323846=number('3.14159265358979323846')",
		"12345678901234567890 = number('12345678901234567890')", "0.00000000000000000000001 = number('0.00000000000000000000001')", "1.140 = 1.14", "01.14 = 1.14", "1.14 = 1.1400000000000001"},
	// a back-slash is an ordinary character of a literal, also as its last one (there are no escapes in XPath literals)
	{"t='a\\'", "t = 'a\\'", "t=\"a\\\"", "t='a\\' or t='zz'", "t=\"a\\\" or t=\"zz\"", "t='\\'", "t='a\\b'", "t=\"it's\"", "t='say \"x\"'", "t=concat('a', '\\')"},
}
var c10LookNumWraps = [][2]string{{"//x[", " = 9]/a"}, {"//x[", " > 2]"}, {"//*[", " != 9]/@id"}, {"/r/x[", " <= 12]/b"}, {"//x[9 = ", "]"}, {"//x[not(", " = 9)]"}}
var c10LookBoolWraps = [][2]string{{"//x[", "]/a"}, {"//x[", "]"}, {"//*[", "]/@id"}, {"/r/x[", "]/b"}, {"//x[not(", ")]"}, {"//x/a[../", "]"}}

func c10LookN() int { return (len(c10LookNumeric) + len(c10LookBoolean)) * 6 * 4 }

func c10Lookalikes(c *Case) {
	ng := len(c10LookNumeric) + len(c10LookBoolean)
	gi := c.Index % ng
	var grp []string
	var wrap [2]string
	if gi < len(c10LookNumeric) {
		grp, wrap = c10LookNumeric[gi], c10LookNumWraps[(c.Index/ng)%6]
	} else {
		grp, wrap = c10LookBoolean[gi-len(c10LookNumeric)], c10LookBoolWraps[(c.Index/ng)%6]
	}
	g := c.G()
	var texts []string
	for _, m := range grp {
		texts = append(texts, wrap[0]+m+wrap[1])
	}
	d := c10LookDoc
	type entry struct {
		name string
		sel  func(src string, rec *xdoc.Rec) (*xpath.NodeIterator, error)
	}
	entries := []entry{
		{"Compile", func(src string, rec *xdoc.Rec) (*xpath.NodeIterator, error) {
			e, err := xpath.Compile(src)
			if err != nil {
				return nil, err
			}
			return e.Select(xdoc.NewNav(d.Root, rec)), nil
		}},
		{"package Select", func(src string, rec *xdoc.Rec) (it *xpath.NodeIterator, err error) {
			defer func() {
				if x := recover(); x != nil {
					if e, isErr := x.(error); isErr {
						it, err = nil, e // documented: the package-level Select panics with the compile error
						return
					}
					panic(x)
				}
			}()
			return xpath.Select(xdoc.NewNav(d.Root, rec), src), nil
		}},
		{"MustCompile", func(src string, rec *xdoc.Rec) (*xpath.NodeIterator, error) {
			if _, err := xpath.Compile(src); err != nil {
				return nil, err
			}
			return xpath.MustCompile(src).Select(xdoc.NewNav(d.Root, rec)), nil
		}},
		{"CompileWithNS", func(src string, rec *xdoc.Rec) (*xpath.NodeIterator, error) {
			e, err := xpath.CompileWithNS(src, map[string]string{"p": "urn:p"})
			if err != nil {
				return nil, err
			}
			return e.Select(xdoc.NewNav(d.Root, rec)), nil
		}},
	}
	for pass := 0; pass < 2; pass++ {
		order := g.R.Perm(len(texts))
		for _, ti := range order {
			src := texts[ti]
			ast, perr := xref.Parse(src)
			var want xref.NodeSet
			if perr == nil {
				var ok bool
				var why string
				want, ok, why = refNodeSet(ast, xref.NewCtx(d.Root))
				if !ok {
					if pass == 0 {
						c.Skip("out-of-fragment: " + why)
					}
					continue
				}
			}
			for _, en := range entries {
				var res SelResult
				var cerr error
				rec := &xdoc.Rec{Limit: OpLimit}
				func() {
					defer func() {
						if x := recover(); x != nil {
							res.Panic, res.Budget = classify(x)
						}
						c.account(rec.Ops)
					}()
					var it *xpath.NodeIterator
					if it, cerr = en.sel(src, rec); cerr == nil {
						drain(it, d, &res)
					}
				}()
				c.Count("lookalike:" + en.name)
				det := func() map[string]interface{} {
					dd := docDetail(d, d.Root)
					dd["expr"], dd["entry_point"], dd["group"], dd["pass"] = src, en.name, texts, pass
					return dd
				}
				if perr != nil {
					if cerr == nil && !res.Aborted() {
						// (the reference rejects the text: nothing is asserted about it here - C17's business)
						c.Count("lookalike:reference-rejects")
					}
					continue
				}
				if cerr != nil {
					dd := det()
					dd["compile_error"] = cerr.Error()
					c.Violation("COMPILE-REJECTED", dd)
					return
				}
				gs, _ := AsSet(res.Nodes)
				if res.Aborted() || res.Foreign > 0 || !SameNodes(gs, want) {
					dd := det()
					dd["expected"], dd["observed_sequence"], dd["abort"] = xdoc.Labels(want), xdoc.Labels(res.Nodes), fmt.Sprint(res.Panic.String(), res.Budget)
					c.Violation("MEANING-DEPENDS-ON-AN-EARLIER-LOOKALIKE", dd)
					return
				}
			}
			if len(want) > 0 {
				c.Nontrivial("look|" + src)
			}
		}
	}
	c.SampleEvery(7, func() interface{} { return map[string]interface{}{"family": "lookalikes", "group": texts} })
}
