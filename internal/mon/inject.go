package mon

import (
	"verif/internal/xdoc"
)

var abortDoc = xdoc.MustParseXML(`<r><a id="1" re="[">x<b>10</b><b>y</b></a><a id="2" re="(">z</a><c/></r>`, false)

// expressions that write/collect something and then abort
var abortExprs = []string{
	"concat('LEFTOVER-', /r/a/@id, sum('oops'))",
	"concat(//b, 'LEFT', substring('abc', 'x'))",
	"normalize-space(concat(' left  over ', starts-with(1, 2)))",
	"//a[matches('x', string(@re))] | //b",
	"//b | //a[replace(., string(@re), '-') = 'q']",
	"string-join(//b, sum('x'))",
	"//a[b = 'y' and starts-with(1, 2)]/ancestor::*",
	"count(//*[following::b][contains(., 1)])",
	"reverse(//b[ends-with(0, 0)])",
	"translate(concat('abc', sum('x')), 'a', 'b')",
	"(//a | //b)[sum('x') = 1]",
	"//b[position() = last()][sum('q') > 0]",
}

func injectAborts(c *Case) {
	for i, src := range abortExprs {
		ce, err := safeCompile(src)
		if err != nil {
			continue
		}
		ctx := abortDoc.Nodes[(c.Index/8+i)%len(abortDoc.Nodes)]
		func() {
			defer func() { recover() }()
			it := ce.Select(xdoc.NewNav(ctx, &xdoc.Rec{Limit: 1_000_000}))
			for n := 0; n < 50 && it.MoveNext(); n++ {
			}
		}()
		func() {
			defer func() { recover() }()
			ce.Evaluate(xdoc.NewNav(ctx, &xdoc.Rec{Limit: 1_000_000}))
		}()
		c.Rep.Counters["aborted_evaluations_injected"] += 2
	}
}
