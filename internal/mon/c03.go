package mon

import (
	"fmt"

	"verif/internal/xdoc"
	"verif/internal/xgen"
	"verif/internal/xref"
)

// C03 - positional predicates on child steps use the XPath proximity position.
//
// Fragment (from the statement): positional predicates occur only as the FIRST predicate of
// child-axis steps (optionally followed by boolean predicates); or [n] on a parenthesised flat
// path / single descendant step, where the n-th node in document order is required.

func init() {
	Register(&Monitor{
		ID:         "C03",
		Level:      "exploration",
		Exhaustive: []string{"grid"},
		Rule: "exhaustive grid: child::T[P] for every positional form P ([n] n=0..6, position() op n for 6 operators, [last()], [last()-n], position()=last(), position() op last(), n op position()) x prefixes {none, //, */, a/, descendant::*/, ancestor-or-self::*/, following-sibling::*/, ../} x optional trailing boolean predicate, and (flat path)[n] / (//T)[n], from every node of wide documents with many parents of different fan-out (0..8 matching children interleaved with other siblings, text, comments); plus seeded random paths with positional first predicates on child steps. " +
			"Non-trivial: reference denotation non-empty and strictly smaller than the same path without the positional predicate; distinct by (expression text, document, context).",
		Assume:        []string{"reference evaluator internal/xref (proximity position, context size)"},
		MinNontrivial: tierN(8000, 100000),
		Required:      []string{},
		Families: []Family{
			witnessFamily("C03"),
			{Name: "grid", N: func(string) int { return len(c03Grid()) }, Run: c03GridRun},
			{Name: "big", N: bigN("C03"), Run: bigRun("C03")},
			{Name: "rand", N: tierN(120000, 6000000), Run: c03Random},
		},
	})
}

var c03g []xref.Expr

func c03PosForms() []xref.Expr {
	var out []xref.Expr
	n := func(i int) xref.Expr { return xref.Num{Lex: fmt.Sprint(i)} }
	pos, last := xref.Call{Name: "position"}, xref.Call{Name: "last"}
	for i := 0; i <= 6; i++ {
		out = append(out, n(i))
	}
	for _, op := range []string{"=", "!=", "<", "<=", ">", ">="} {
		for _, i := range []int{1, 2, 3} {
			out = append(out, xref.Bin{Op: op, L: pos, R: n(i)})
		}
		out = append(out, xref.Bin{Op: op, L: pos, R: last})
		out = append(out, xref.Bin{Op: op, L: last, R: pos}) // the mirrored spelling: last() is evaluated first
		out = append(out, xref.Bin{Op: op, L: n(2), R: pos})
	}
	out = append(out, last)
	for _, i := range []int{0, 1, 2} {
		out = append(out, xref.Bin{Op: "-", L: last, R: n(i)})
		out = append(out, xref.Bin{Op: "=", L: pos, R: xref.Bin{Op: "-", L: last, R: n(i)}})
		out = append(out, xref.Bin{Op: "=", L: xref.Bin{Op: "-", L: last, R: n(i)}, R: pos})
	}
	return out
}

func c03Grid() []xref.Expr {
	if c03g != nil {
		return c03g
	}
	child := func(t xref.Test, preds ...xref.Expr) *xref.Step {
		return &xref.Step{Axis: "child", Abbrev: "child", Test: t, Preds: preds}
	}
	prefixes := [][]*xref.Step{
		nil,
		{xgen.DSlash()},
		{child(xref.Test{Kind: "*"})},
		{child(xref.Test{Kind: "name", Local: "a"})},
		{{Axis: "descendant", Test: xref.Test{Kind: "*"}}},
		{{Axis: "ancestor-or-self", Test: xref.Test{Kind: "*"}}},
		{{Axis: "following-sibling", Test: xref.Test{Kind: "*"}}},
		{{Axis: "parent", Test: xref.Test{Kind: "node"}, Abbrev: ".."}},
		{xgen.DSlash(), child(xref.Test{Kind: "name", Local: "a"})},
	}
	trailing := []xref.Expr{nil,
		xref.Path{Steps: []*xref.Step{{Axis: "attribute", Abbrev: "@", Test: xref.Test{Kind: "name", Local: "id"}}}},
		xref.Call{Name: "not", Args: []xref.Expr{xref.Path{Steps: []*xref.Step{child(xref.Test{Kind: "*"})}}}},
	}
	tests := []xref.Test{{Kind: "name", Local: "a"}, {Kind: "*"}, {Kind: "node"}, {Kind: "text"}}
	for pi, pre := range prefixes {
		for _, t := range tests {
			for _, pf := range c03PosForms() {
				for ti, tr := range trailing {
					if ti > 0 && (pi+len(c03g))%2 == 0 {
						continue // trailing predicates on half of the grid
					}
					preds := []xref.Expr{pf}
					if tr != nil {
						preds = append(preds, tr)
					}
					steps := append(append([]*xref.Step(nil), pre...), child(t, preds...))
					abs := len(pre) > 0 && pre[0].Abbrev == "//"
					c03g = append(c03g, xref.Path{Abs: abs, Steps: steps})
					// a further step after the positional one
					if ti == 0 {
						steps2 := append(append([]*xref.Step(nil), steps...), child(xref.Test{Kind: "*"}))
						c03g = append(c03g, xref.Path{Abs: abs, Steps: steps2})
					}
				}
			}
		}
	}
	// a single descendant(-or-self) step from the context node, filtered by [n]: the n-th node of that step in document order
	for n := 1; n <= 6; n++ {
		for _, t := range tests[:3] {
			for _, ax := range []string{"descendant", "descendant-or-self"} {
				c03g = append(c03g, xref.Path{Steps: []*xref.Step{{Axis: ax, Test: t, Preds: []xref.Expr{xref.Num{Lex: fmt.Sprint(n)}}}}})
			}
		}
	}
	// (flat path)[n] and (//T)[n]
	for n := 1; n <= 6; n++ {
		for _, t := range tests[:3] {
			flat := []xref.Path{
				{Steps: []*xref.Step{child(t)}},
				{Steps: []*xref.Step{child(xref.Test{Kind: "*"}), child(t)}},
				{Steps: []*xref.Step{child(xref.Test{Kind: "*"}), {Axis: "attribute", Abbrev: "@", Test: xref.Test{Kind: "*"}}}},
				{Abs: true, Steps: []*xref.Step{xgen.DSlash(), child(t)}},
				{Steps: []*xref.Step{{Axis: "descendant", Test: t}}},
			}
			for _, f := range flat {
				c03g = append(c03g, xref.Filter{X: xref.Group{X: f}, Preds: []xref.Expr{xref.Num{Lex: fmt.Sprint(n)}}})
			}
		}
	}
	return c03g
}

func c03Docs(c *Case) []*xdoc.Doc {
	n := 10
	if c.Tier == "thorough" {
		n = 40
	}
	return c.docPool("wide", n, func(g *xgen.G) *xdoc.Doc {
		if g.Chance(0.5) {
			return g.WideTree(4, 8)
		}
		return g.WideTree(6, 4)
	})
}

func c03DeepDocs(c *Case) []*xdoc.Doc {
	docs := c.docPool("deep", 3, func(g *xgen.G) *xdoc.Doc { return g.DeepTree() })
	// siblings that share a local name but not a prefix (p:a next to a): they are not candidates of the step a
	docs = append(append([]*xdoc.Doc(nil), docs...), c.docPool("prefixed", 3, func(g *xgen.G) *xdoc.Doc { return g.NSTree(false) })...)
	// runs of adjacent text nodes and comments (API-built trees, HTML): each delivered node is one candidate of text()/node()
	return append(docs, c.docPool("splittext", 3, func(g *xgen.G) *xdoc.Doc { return g.SplitTextTree() })...)
}

// withoutPositional returns e with numeric/positional first predicates removed (to size the candidate set).
func withoutPositional(e xref.Expr) xref.Expr {
	switch x := e.(type) {
	case xref.Filter:
		return x.X
	case xref.Path:
		cp := x
		cp.Steps = nil
		for _, s := range x.Steps {
			s2 := *s
			if s.Axis == "child" && len(s.Preds) > 0 && s.Abbrev != "//" {
				s2.Preds = s.Preds[1:]
			}
			cp.Steps = append(cp.Steps, &s2)
		}
		return cp
	}
	return e
}

func c03GridRun(c *Case) {
	e := c03Grid()[c.Index]
	src := xref.Render(e)
	ce := c.compile(src, func() map[string]interface{} { return map[string]interface{}{} })
	if ce == nil {
		return
	}
	c.recordShape(queryShape(ce))
	_, isFilter := e.(xref.Filter)
	for di, d := range append(append([]*xdoc.Doc(nil), c03Docs(c)...), c03DeepDocs(c)...) {
		for k, ctx := range d.Nodes {
			// every node of the first documents, a deterministic third of the others
			if di >= 3 && (k+c.Index)%3 != 0 {
				continue
			}
			want, ok, why := refNodeSet(e, xref.NewCtx(ctx))
			if !ok {
				panic("C03 grid: reference: " + why + " on " + src)
			}
			got, good := c.checkSelectSet(ce, src, ctx, want)
			if !good {
				return
			}
			if isFilter && len(got.Nodes) != len(want) {
				dd := docDetail(d, ctx)
				dd["expr"] = src
				dd["expected"] = xdoc.Labels(want)
				dd["observed_sequence"] = xdoc.Labels(got.Nodes)
				c.Violation("NTH-NODE-REPEATED", dd)
				return
			}
			if len(want) > 0 {
				all, _, _ := refNodeSet(withoutPositional(e), xref.NewCtx(ctx))
				if len(all) > len(want) {
					c.Nontrivial(fmt.Sprintf("%s|%d|%d", src, di, ctx.Ord))
				}
			}
		}
	}
	c.SampleEvery(307, func() interface{} { return map[string]interface{}{"family": "grid", "expr": src} })
}

func c03Random(c *Case) {
	g := c.G()
	dg := c.GShared("doc", int64(c.Index/6))
	var d *xdoc.Doc
	if (c.Index/6)%8 == 4 {
		d = dg.SplitTextTree()
	} else if (c.Index/6)%8 == 5 {
		d = dg.DeepTree()
	} else if (c.Index/6)%8 == 6 {
		d = dg.NSTree(false)
	} else if (c.Index/6)%8 == 7 {
		d = dg.NameLikeTree(xgen.Names)
	} else if dg.Chance(0.6) {
		d = dg.WideTree(4, 8)
	} else {
		d = dg.Tree(xgen.DefaultTree())
	}
	ctx := d.Nodes[g.Intn(len(d.Nodes))]
	if g.Chance(0.4) {
		ctx = d.Root
	}
	env := &xgen.Env{Doc: d, Ctx: ctx, Names: namesIn(d)}
	e := g.PosPath(env, 5)
	if pp, isPath := e.(xref.Path); isPath && g.Chance(0.25) {
		// the positional path used as an existence predicate of an outer step: it is re-evaluated for every outer candidate
		pp.Abs = false
		if pp.Steps[0].Abbrev == "//" {
			pp.Steps = append([]*xref.Step{xgen.SelfDot()}, pp.Steps...)
		}
		var pred xref.Expr = pp
		if g.Chance(0.3) {
			pred = xref.Call{Name: "not", Args: []xref.Expr{pp}}
		}
		outer := &xref.Step{Axis: g.Pick("child", "descendant", "descendant-or-self", "ancestor-or-self", "following-sibling"), Test: xref.Test{Kind: "*"}, Preds: []xref.Expr{pred}}
		e = xref.Path{Abs: true, Steps: []*xref.Step{xgen.DSlash(), outer}}
		if g.Chance(0.5) {
			e = xref.Path{Steps: []*xref.Step{outer}}
		}
	}
	if c.expensive(e, d) {
		return
	}
	src := xref.Render(e)
	want, ok, why := refNodeSet(e, xref.NewCtx(ctx))
	if !ok {
		c.Skip("out-of-fragment: " + why)
		return
	}
	ce := c.compile(src, func() map[string]interface{} { return docDetail(d, ctx) })
	if ce == nil {
		return
	}
	c.recordShape(queryShape(ce))
	if _, good := c.checkSelectSet(ce, src, ctx, want); !good {
		return
	}
	if len(want) > 0 {
		all, ok2, _ := refNodeSet(withoutPositional(e), xref.NewCtx(ctx))
		if ok2 && len(all) > len(want) {
			c.Nontrivial(fmt.Sprintf("%s|%d|%d", src, c.Index/6, ctx.Ord))
		}
	}
	c.SampleEvery(3001, func() interface{} {
		return map[string]interface{}{"family": "rand", "expr": src, "ctx": ctx.Label(), "doc": d.XML(), "selected": xdoc.Labels(want)}
	})
}
