package mon

import (
	"fmt"
	"regexp"
	"strings"

	"github.com/antchfx/xpath"

	"verif/internal/xdoc"
	"verif/internal/xgen"
	"verif/internal/xref"
)

// C06 - Compile is total: no panic, crash or hang; exactly one of (expr, error).
//
// Oracle: result-shape assertions on Compile / CompileWithNS / MustCompile; a panic escaping any
// of them; the worker process dying with a fatal error (stack exhaustion) - observed by the
// driver, which blames the case announced last; CPU time of one case beyond the budget (the
// worker's CPU watchdog) - non-termination.

func init() {
	Register(&Monitor{
		ID:         "C06",
		Level:      "exploration",
		Exhaustive: []string{"deep", "long", "huge", "mixed", "fnargs", "utf8edge", "regexlits", "predforms", "cachefill"},
		Rule: "every recursive construct of the grammar nested to depth 10, 10^2, ... up to the tier's maximum ( ((((1)))), a[a[a[...]]], not(not(...)), -(-(...)), a/((((b)))) - the parseStep/parseSequence cycle -, a/(a/(a/(...))), unterminated a/((((, f(f(f(...))), (a|(a|(...))) ) and every iterative construct to length 3*10^k (a/a/..., 1+1+..., a|a|..., a or a ..., a[1][1]..., a//a..., f(1,1,...), -----1, long names, long strings, long numbers), each through Compile, CompileWithNS (nil, empty, bound, unbound maps) and MustCompile; " +
			"every ORDERED PAIR of recursive constructs alternating (a[not(a[not(...)])], (a[(a[...])]), f(-(f(-(...)))), ...) to depth 6..1000 - a build step that repeats work per level turns such inputs into a hang; namespace maps with the empty string and malformed strings as keys; " +
			"grammar-generated valid expressions and their truncations at every byte; every function name x every list of 0-3 arguments over 9 argument kinds (number, string, path, boolean call, invalid regex, parenthesised and negated literals, variable, comparison); seeded random token strings over the token alphabet plus arbitrary bytes (NUL, invalid UTF-8, non-ASCII name characters). Compile of constant-pattern matches()/replace() goes through the process-wide pattern cache: the (n+1)-th, (n+2)-th ... distinct pattern after the cache is full (default capacity 65536, and client-swapped caches of capacity 1-4) must come back from Compile like the first. The worker's maximum goroutine stack is lowered to 64 MiB so that unbounded recursion surfaces at depth ~10^5. " +
			"Non-trivial: the input is longer than 8 bytes; distinct by input text (hash).",
		Assume:        []string{"a fatal runtime error kills only the worker process; the driver attributes it to the case announced last", "CPU budget per case: 150 s (observed maximum for 3 MB inputs: a few seconds)"},
		MinNontrivial: tierN(50000, 500000),
		Required:      []string{"deep", "long", "mixed", "fuzz:accepted", "fuzz:rejected", "ns:unbound-rejected", "mustcompile", "fnargs:accepted", "fnargs:rejected", "regexlits", "predforms", "cachefill", "usability_probe", "smallest_inputs"},
		Families: []Family{
			witnessFamily("C06"),
			{Name: "deep", N: func(t string) int { return len(c06Deep(t)) }, Run: func(c *Case) { c06Construct(c, c06Deep(c.Tier)[c.Index], "deep") }},
			{CPUBudget: 30, Name: "long", N: func(t string) int { return len(c06LongBy(t, false)) }, Run: func(c *Case) { c06Construct(c, c06LongBy(c.Tier, false)[c.Index], "long") }},
			{Name: "huge", N: func(t string) int { return len(c06LongBy(t, true)) }, Run: func(c *Case) { c06Construct(c, c06LongBy(c.Tier, true)[c.Index], "long") }},
			{CPUBudget: 60, Name: "mixed", N: func(string) int { return len(c06Wrappers) * len(c06Wrappers) * len(c06MixedDepths) }, Run: c06Mixed},
			{CPUBudget: 40, Name: "trunc", N: tierN(1500, 60000), Run: c06Trunc},
			{CPUBudget: 40, Name: "fuzz", N: tierN(1000, 40000), Run: c06Fuzz},
			{CPUBudget: 40, Name: "fnargs", N: func(string) int { return len(xgen.AllFuncs) }, Run: c06FnArgs},
			{CPUBudget: 40, Name: "utf8edge", N: func(string) int { return 160 }, Run: c06UTF8Edge},
			{CPUBudget: 30, Name: "predforms", N: func(string) int { return len(c06PredCores) * len(c06PredWraps) }, Run: c06PredForms},
			{CPUBudget: 30, Name: "regexlits", N: func(string) int { return len(c06RegexLits()) }, Run: c06RegexLit},
			{CPUBudget: 120, Name: "cachefill", N: func(string) int { return 4 }, Run: c06CacheFill},
		},
	})
}

type c06Spec struct {
	Name           string
	Pre, Mid, Post string
	N              int
}

func (s c06Spec) text() string {
	var sb strings.Builder
	sb.Grow(len(s.Pre)*s.N + len(s.Mid) + len(s.Post)*s.N + 16)
	for i := 0; i < s.N; i++ {
		sb.WriteString(s.Pre)
	}
	sb.WriteString(s.Mid)
	for i := 0; i < s.N; i++ {
		sb.WriteString(s.Post)
	}
	return sb.String()
}

func c06Depths(t string) []int {
	if t == "thorough" {
		return []int{10, 100, 190, 210, 1000, 1030, 10000, 100000, 1000000, 3000000}
	}
	return []int{10, 100, 190, 210, 1000, 1030, 10000, 100000, 400000}
}

func c06Deep(t string) []c06Spec {
	var out []c06Spec
	for _, n := range c06Depths(t) {
		out = append(out,
			c06Spec{Name: "((((1))))", Pre: "(", Mid: "1", Post: ")", N: n},
			c06Spec{Name: "a[a[a[...]]]", Pre: "a[", Mid: "a", Post: "]", N: n},
			c06Spec{Name: "not(not(...))", Pre: "not(", Mid: "a", Post: ")", N: n},
			c06Spec{Name: "-(-(...))", Pre: "-(", Mid: "1", Post: ")", N: n},
			c06Spec{Name: "a/((((b))))", Pre: "(", Mid: "b", Post: ")", N: n},
			c06Spec{Name: "a/(a/(a/(...)))", Pre: "a/(", Mid: "b", Post: ")", N: n},
			c06Spec{Name: "a/(((( unterminated", Pre: "(", Mid: "", Post: "", N: n},
			c06Spec{Name: "(((( unterminated", Pre: "(", Mid: "", Post: "", N: n},
			c06Spec{Name: "a[a[a[ unterminated", Pre: "a[", Mid: "", Post: "", N: n},
			c06Spec{Name: "(a|(a|(...)))", Pre: "(a|", Mid: "a", Post: ")", N: n},
			c06Spec{Name: "a[(a[(...)])]", Pre: "a[(", Mid: "a", Post: ")]", N: n},
			c06Spec{Name: "string(concat(string(...)))", Pre: "string(concat('x',", Mid: "'y'", Post: "))", N: n},
			c06Spec{Name: "a/(b,(b,(...)))", Pre: "(b,", Mid: "c", Post: ")", N: n},
			c06Spec{Name: "@*[@*[...]]", Pre: "@*[", Mid: "1", Post: "]", N: n},
			c06Spec{Name: "(a)[(a)[...]]", Pre: "(a)[", Mid: "1", Post: "]", N: n},
		)
	}
	return out
}

func (s c06Spec) fullText() string {
	t := s.text()
	switch s.Name {
	case "a/((((b))))", "a/(((( unterminated", "a/(b,(b,(...)))":
		return "a/" + t
	}
	return t
}

func c06Long(t string) []c06Spec {
	// (every rung matters: work that doubles per element is over in a millisecond at 10 and is cut short by the
	// builder's depth limit at 1000 - it only shows between about 25 and 500)
	lens := []int{10, 25, 40, 60, 100, 200, 400, 511, 1000, 100000, 1000000}
	if t == "thorough" {
		lens = append(lens, 3000000)
	}
	var out []c06Spec
	for _, n := range lens {
		out = append(out,
			c06Spec{Name: "a/a/a...", Pre: "a/", Mid: "a", N: n},
			c06Spec{Name: "1+1+1...", Pre: "1+", Mid: "1", N: n},
			c06Spec{Name: "a|a|a...", Pre: "a|", Mid: "a", N: n},
			c06Spec{Name: "a or a or...", Pre: "a or ", Mid: "a", N: n},
			c06Spec{Name: "a and a and...", Pre: "a and ", Mid: "a", N: n},
			c06Spec{Name: "1=1=1...", Pre: "1=", Mid: "1", N: n},
			c06Spec{Name: "1<1<1...", Pre: "1<", Mid: "1", N: n},
			c06Spec{Name: "1*1*1...", Pre: "1*", Mid: "1", N: n},
			c06Spec{Name: "a[1][1]...", Pre: "", Mid: "a", Post: "[1]", N: n},
			c06Spec{Name: "(a)[1][1]...", Pre: "", Mid: "(a)", Post: "[1]", N: n},
			c06Spec{Name: "a//a//a...", Pre: "a//", Mid: "a", N: n},
			c06Spec{Name: "concat(1,1,...)", Pre: "1,", Mid: "1)", N: n},
			c06Spec{Name: "-----1", Pre: "-", Mid: "1", N: n * 3},
			c06Spec{Name: "- - - - 1", Pre: "- ", Mid: "a", N: n * 2},
			c06Spec{Name: "a/-----1 (invalid)", Pre: "-", Mid: "1", N: n},
			c06Spec{Name: "long name", Pre: "ab", Mid: "c", N: n},
			c06Spec{Name: "long string", Pre: "xy", Mid: "'", N: n},
			c06Spec{Name: "long number", Pre: "12", Mid: ".5", N: n},
			c06Spec{Name: "a/(b,b,b,...)", Pre: "b,", Mid: "b)", N: n},
			c06Spec{Name: "spaces", Pre: " \t\n", Mid: "a", N: n},
			c06Spec{Name: "../../..", Pre: "../", Mid: "..", N: n},
			c06Spec{Name: "@a|@a...", Pre: "@a|", Mid: "@a", N: n},
			c06Spec{Name: "a/(a,b)/(a,b)...", Pre: "", Mid: "a", Post: "/(a,b)", N: n},
			c06Spec{Name: "//a/(a,b,c)/(a,b,c)...", Pre: "", Mid: "//a", Post: "/(a,b,c)", N: n},
			c06Spec{Name: "a/(b)/(b)...", Pre: "", Mid: "a", Post: "/(b)", N: n},
			c06Spec{Name: "a/(a,b)[1]/(a,b)[1]...", Pre: "", Mid: "a", Post: "/(a,b)[1]", N: n},
			c06Spec{Name: "//a//a//a...", Pre: "//a", Mid: "//a", N: n},
			c06Spec{Name: ".//a//b/../...", Pre: ".//a//b/../", Mid: ".", N: n},
			c06Spec{Name: "//*//*...", Pre: "//*", Mid: "//@x", N: n},
			c06Spec{Name: "a/./././.", Pre: "a/./", Mid: ".", N: n},
			c06Spec{Name: "a[b][c][b]...", Pre: "", Mid: "a", Post: "[b][c]", N: n},
			c06Spec{Name: "a/b[1]/a/b[1]...", Pre: "a/b[1]/", Mid: "a", N: n},
			c06Spec{Name: "//a[1]//a[1]...", Pre: "//a[1]", Mid: "//a", N: n},
			c06Spec{Name: "a | b | a | b (spaces)", Pre: "a | b | ", Mid: "a", N: n},
			c06Spec{Name: "f(f(..)) flat: string(a)=string(a)=...", Pre: "string(a)=", Mid: "1", N: n},
			c06Spec{Name: "1 div 1 mod 1...", Pre: "1 div 1 mod ", Mid: "1", N: n},
			c06Spec{Name: "a!=a!=...", Pre: "a!=", Mid: "a", N: n},
			c06Spec{Name: "a<=a>=a...", Pre: "a<=a>=", Mid: "a", N: n},
			c06Spec{Name: "p:a/p:a...", Pre: "p:a/", Mid: "p:a", N: n},
			c06Spec{Name: "child::a/child::a...", Pre: "child::a/", Mid: "descendant::a", N: n},
			c06Spec{Name: "ancestor::a/following::a...", Pre: "ancestor::a/following::a/", Mid: "preceding-sibling::a", N: n},
		)
	}
	return out
}

// c06LongBy splits the iterative constructs into those of up to 1000 elements (a 30 s CPU budget per input is
// ample: they compile in milliseconds) and the huge ones (default budget).
func c06LongBy(t string, huge bool) []c06Spec {
	var out []c06Spec
	for _, sp := range c06Long(t) {
		if (sp.N > 3000) == huge {
			out = append(out, sp)
		}
	}
	return out
}

func (s c06Spec) longText() string {
	t := s.text()
	switch s.Name {
	case "a/-----1 (invalid)":
		return "a/" + t
	case "concat(1,1,...)":
		return "concat(" + t
	case "long string":
		return "'" + t
	case "a/(b,b,b,...)":
		return "a/(" + t
	}
	return t
}

// shapeCheck calls the three entry points on src and asserts the result shapes.
var usableDoc = xdoc.MustParseXML(`<r><a x="1">t<b/><!--c--></a><a/></r>`, false)

func (c *Case) c06Check(src string, label string) {
	c.Rep.Counters["c06_calls"]++
	if c.Rep.Counters["c06_calls"]%500 == 1 && !c.Canary(1) {
		return
	}
	viol := func(kind, what string) {
		show := src
		if len(show) > 200 {
			show = show[:100] + fmt.Sprintf("...(%d bytes)...", len(src)) + show[len(show)-60:]
		}
		c.Violation(kind, map[string]interface{}{"input": show, "input_len": len(src), "construct": label, "observed": what})
	}
	// "usable": what Compile hands back with a nil error, and what MustCompile hands back always, can be
	// evaluated - a deliberate complaint about argument types is a use, a nil dereference inside the
	// returned value is not. Probed on a seven-node document for inputs of moderate size and cost.
	usable := func(name string, e *xpath.Expr) {
		if len(src) > 2048 || xgen.CostEstimateText(src, len(usableDoc.Nodes)) > xgen.MaxCost {
			return
		}
		c.Count("usability_probe")
		sel := c.RunSelect(e, usableDoc.Root.Children[0])
		ev := c.RunEvaluate(e, usableDoc.Root.Children[0])
		switch {
		case sel.Budget || ev.Budget:
			viol("RETURNED-EXPRESSION-UNUSABLE", name+": evaluation on a seven-node document exhausts the navigator-op budget")
		case sel.Panic != nil && sel.Panic.Runtime:
			viol("RETURNED-EXPRESSION-UNUSABLE", name+": Select: "+sel.Panic.String())
		case ev.Panic != nil && ev.Panic.Runtime:
			viol("RETURNED-EXPRESSION-UNUSABLE", name+": Evaluate: "+ev.Panic.String())
		}
	}
	try := func(name string, f func() (*xpath.Expr, error)) (accepted bool) {
		defer func() {
			if x := recover(); x != nil {
				pi, _ := classify(x)
				viol("PANIC-ESCAPED-"+name, pi.String())
			}
		}()
		e, err := f()
		c.Rep.Evals++
		switch {
		case e == nil && err == nil:
			viol("NEITHER-EXPR-NOR-ERROR", name)
		case e != nil && err != nil:
			viol("BOTH-EXPR-AND-ERROR", name+": "+err.Error())
		case e != nil && name == "Compile":
			usable(name, e)
		}
		return e != nil && err == nil
	}
	acc := try("Compile", func() (*xpath.Expr, error) { return xpath.Compile(src) })
	for _, ns := range []map[string]string{nil, {}, {"p": "urn:p"}, {"": "urn:default", "b": "urn:b"}, {"1b": "u", "-": "u", "a b": "u", "\xff": "u", "p": ""}} {
		ns := ns
		try("CompileWithNS", func() (*xpath.Expr, error) { return xpath.CompileWithNS(src, ns) })
	}
	func() {
		defer func() {
			if x := recover(); x != nil {
				pi, _ := classify(x)
				viol("MUSTCOMPILE-PANICKED", pi.String())
			}
		}()
		e := xpath.MustCompile(src)
		c.Rep.Evals++
		c.Count("mustcompile")
		if e == nil {
			viol("MUSTCOMPILE-RETURNED-NIL", "")
		} else if !acc {
			usable("MustCompile of a rejected input", e)
		}
	}()
	if acc {
		c.Count(label + ":accepted")
	} else {
		c.Count(label + ":rejected")
	}
	if len(src) > 8 {
		c.Nontrivial(src)
	}
}

func c06Construct(c *Case, s c06Spec, fam string) {
	var src string
	if fam == "deep" {
		src = s.fullText()
	} else {
		src = s.longText()
	}
	c.Count(fam)
	c.c06Check(src, fam)
	c.Sample(map[string]interface{}{"family": fam, "construct": s.Name, "n": s.N, "bytes": len(src)})
}

// c06Trunc: valid generated expressions and every byte-truncation of them, plus namespace maps.
func c06Trunc(c *Case) {
	g := c.G()
	env := &xgen.Env{Names: xgen.Names}
	d := valueDoc(c.GShared("d", 0))
	env.Doc, env.Ctx = d, d.Root
	e := anyExpr(g, env)
	src := xref.Render(e)
	c.c06Check(src, "trunc")
	_, errBefore := safeCompile(src)
	for i := 1; i < len(src); i++ {
		c.c06Check(src[:i], "trunc")
		if c.Violated() {
			return
		}
	}
	// Compile is a function of its input: the verdict on the complete expression is the same after
	// hundreds of (mostly failing) compilations of its truncations as before them
	if _, errAfter := safeCompile(src); (errBefore == nil) != (errAfter == nil) {
		c.Violation("COMPILE-VERDICT-DEPENDS-ON-EARLIER-CALLS", map[string]interface{}{"input": src, "before": fmt.Sprint(errBefore), "after": fmt.Sprint(errAfter)})
		return
	}
	// prefixed name tests: bound compiles, unbound in a non-nil map is rejected
	pref := "p:a/q:b[@r:c]"
	if _, err := xpath.CompileWithNS(pref, map[string]string{"p": "u1", "q": "u2", "r": "u3"}); err != nil {
		c.Violation("BOUND-PREFIXES-REJECTED", map[string]interface{}{"input": pref, "error": err.Error()})
	}
	for _, m := range []map[string]string{{}, {"p": "u1"}, {"p": "u1", "q": "u2"}} {
		if e2, err := xpath.CompileWithNS(pref, m); err == nil || e2 != nil {
			c.Violation("UNBOUND-PREFIX-ACCEPTED", map[string]interface{}{"input": pref, "map": fmt.Sprint(m)})
		} else {
			c.Count("ns:unbound-rejected")
		}
	}
	c.SampleEvery(301, func() interface{} {
		return map[string]interface{}{"family": "trunc", "expr": src, "truncations": len(src) - 1}
	})
}

var c06Alphabet = []string{"a", "b", "div", "mod", "and", "or", "child", "::", ":", "/", "//", ".", "..", "@", "*", "(", ")", "[", "]", ",", "|", "+", "-", "=", "!=", "!", "<", "<=", ">", ">=",
	"$", "$x", "'", "\"", "'s'", "1", "2.5", ".5", "3.", " ", "\t", "\n", "text()", "node()", "comment()", "processing-instruction(", "count(", "not(", "concat(", "last()", "position()",
	"ancestor::", "namespace::", "p:a", "p:*", "a-b", "a.b", "\x00", "\xff", "\xc3", "é", "中", "#", "&", "%", "^", "{", "}", ";", "\\", "`", "~", "?", "1e3", "0x1", "''", "\"\"", "true()", "matches(", "'[", "replace("}

// c06Fuzz: 200 random token strings per case.
func c06Fuzz(c *Case) {
	g := c.G()
	for k := 0; k < 200; k++ {
		n := 1 + g.Intn(14)
		var sb strings.Builder
		for i := 0; i < n; i++ {
			if g.Chance(0.05) {
				sb.WriteByte(byte(g.Intn(256)))
				continue
			}
			sb.WriteString(c06Alphabet[g.Intn(len(c06Alphabet))])
			if g.Chance(0.2) {
				sb.WriteByte(' ')
			}
		}
		c.c06Check(sb.String(), "fuzz")
		if c.Violated() {
			return
		}
	}
	c.SampleEvery(211, func() interface{} { return map[string]interface{}{"family": "fuzz", "strings_per_case": 200} })
}

var c06ArgKinds = []string{"1", "'s'", "a", "true()", "'['", "(2)", "-1", "$v", "a = 1"}

// c06FnArgs: one function name x every argument list of length 0..3 over the argument kinds.
func c06FnArgs(c *Case) {
	fn := xgen.AllFuncs[c.Index]
	var rec func(args []string)
	rec = func(args []string) {
		src := fn + "(" + strings.Join(args, ", ") + ")"
		c.c06Check(src, "fnargs")
		if len(args) > 0 {
			c.c06Check("//*["+src+"]", "fnargs")
		}
		if len(args) == 3 || c.Violated() {
			return
		}
		for _, k := range c06ArgKinds {
			rec(append(append([]string(nil), args...), k))
		}
	}
	rec(nil)
	c.Sample(map[string]interface{}{"family": "fnargs", "function": fn, "argument_kinds": c06ArgKinds, "max_args": 3})
}

// c06UTF8Edge: long (60..220 byte) valid and malformed inputs whose last, multi-byte or invalid
// characters straddle every byte offset - error paths that slice or truncate the input text.
func c06UTF8Edge(c *Case) {
	if c.Index == 0 {
		// the smallest inputs: nothing at all, only white space, single bytes
		for _, in := range []string{"", " ", "\t", "\n", "\r\n", "  \t ", "\x00", "\xff", "\xc3", "\u00a0", "\u2028", "\ufeff", "\ufeffa"} {
			c.Count("smallest_inputs")
			c.c06Check(in, "utf8edge")
		}
		for b := 0; b < 256; b++ {
			c.c06Check(string([]byte{byte(b)}), "utf8edge")
			c.c06Check("a"+string([]byte{byte(b)}), "utf8edge")
			c.c06Check(string([]byte{byte(b)})+"a", "utf8edge")
		}
	}
	n := 40 + c.Index
	for _, body := range []string{"a", "a/", "ab|", "1+", "x[", "f(", "'s", " "} {
		pre := strings.Repeat(body, n/len(body)+1)[:n]
		for _, tail := range []string{"é", "中", "😀", "\x80", "\x80\x80\x80", "\xc3", "\xe4\xb8", "é)", "中]", "é'", "\xff\xfe", "aé中", "é é é"} {
			c.c06Check(pre+tail, "utf8edge")
			c.c06Check(pre+tail+")", "utf8edge")
			if c.Violated() {
				return
			}
		}
	}
	c.Sample(map[string]interface{}{"family": "utf8edge", "prefix_bytes": n})
}

// c06Wrappers are the recursive constructs as (opening, closing) text; c06Mixed alternates two of them.
var c06Wrappers = [][2]string{{"(", ")"}, {"a[", "]"}, {"not(", ")"}, {"-(", ")"}, {"count(a[", "])"}, {"(a|", ")"}, {"a[1+", "]"}, {"string(", ")"}, {"a[b=", "]"}}
var c06MixedDepths = []int{6, 14, 26, 45, 95, 1000}

func c06Mixed(c *Case) {
	nw := len(c06Wrappers)
	d := c06MixedDepths[c.Index%len(c06MixedDepths)]
	a := c06Wrappers[(c.Index/len(c06MixedDepths))%nw]
	b := c06Wrappers[(c.Index/len(c06MixedDepths)/nw)%nw]
	var open, close strings.Builder
	var closers []string
	for i := 0; i < d; i++ {
		w := a
		if i%2 == 1 {
			w = b
		}
		open.WriteString(w[0])
		closers = append(closers, w[1])
	}
	for i := len(closers) - 1; i >= 0; i-- {
		close.WriteString(closers[i])
	}
	src := open.String() + "a" + close.String()
	c.Count("mixed")
	c.c06Check(src, "mixed")
	c.c06Check("//x["+src+"]", "mixed")
	c.SampleEvery(41, func() interface{} {
		return map[string]interface{}{"family": "mixed", "outer": a[0], "inner": b[0], "depth": d, "bytes": len(src)}
	})
}

// c06RegexLits: constant patterns are compiled by Compile itself (the check of issue #92), so every string literal
// in the pattern position of matches()/replace() is an input of Compile too: boundary shapes of regular expressions
// (dangling escapes, unterminated classes / groups / repetitions, Perl and POSIX classes, XPath-only escapes, deep
// nesting, huge repetition counts, very long patterns). Totality is all that is asked: a value or an error, soon.
func c06RegexLits() []string {
	base := []string{"\\", "a\\", "\\\\", "a\\\\\\", "\\i", "\\c", "\\I\\C", "[\\", "[a\\", "(?", "(?i", "(?P<", "(?P<n>", "(?P<n>a)", "a{", "a{1", "a{1,", "a{1,2", "a{2,1}", "a{1001}", "a{1000}{1000}", "(a{1000}){1000}",
		"\\p{", "\\p{L", "\\p{Nope}", "\\pL", "\\x{", "\\x{110000}", "\\x4", "[[:", "[[:alpha:]", "[[:alpha:]]", "[[:nope:]]", "[a-", "[a-]", "[]a]", "[^]", "[]", "\\Q", "\\Qab", "\\Qab\\E", "x*+", "x**", "a|*", "^*", "$*", "$+", "{", "}", ")", "]",
		"\\8", "(a)\\1", "\\b\\B\\A\\z\\Z", "(?i)(?s)(?m)(?U)a", "(?i-s:a)", "(?#c)", "(?=a)", "(?!a)", "(?<=a)", "a++", "a?+", "\\C", "\\X", "\\R", "\\h", "\\0", "\\07", "\\_", "\\-", "\u00e9\\", "\xff", "\xc3\\",
		"", " ", "a b", "\t", "\n", ".", "^$", "()", "(|)", "|", "||", "(a|)", "[\\d-z]", "[z-a]", "\\d{2,3}?", "(a*)*", "(a*)+$", "(a|aa)*b"}
	var out []string
	out = append(out, base...)
	for _, n := range []int{10, 100, 999, 1000, 1001, 5000, 100000} {
		out = append(out, strings.Repeat("(", n)+"a"+strings.Repeat(")", n), strings.Repeat("(", n), strings.Repeat("a", n), strings.Repeat("a|", n)+"a", strings.Repeat("[", n), strings.Repeat("\\", n), strings.Repeat("\\", n)+"\\",
			strings.Repeat("a?", n)+strings.Repeat("a", n), strings.Repeat("(a|b)*", n), "a{"+fmt.Sprint(n)+"}", "(a{"+fmt.Sprint(n)+"}){"+fmt.Sprint(n)+"}", strings.Repeat("(?i)", n)+"a", strings.Repeat("(?:", n)+"a"+strings.Repeat(")", n))
	}
	return out
}

func c06RegexLit(c *Case) {
	pat := c06RegexLits()[c.Index]
	if strings.Contains(pat, "'") {
		return
	}
	q := "'" + pat + "'"
	for _, src := range []string{"matches('x', " + q + ")", "replace('x', " + q + ", 'y')", "//a[matches(@h, " + q + ")]", "matches(" + q + ", 'x')", "replace('x', (" + q + "), " + q + ")",
		"matches('x', concat(" + q + ", ''))", "count(//*[replace(., " + q + ", '$1') = ''])", "matches('x', \"" + pat + "\")"} {
		if strings.Contains(src, "\"") && strings.Contains(pat, "\"") {
			continue
		}
		c.Count("regexlits")
		c.c06Check(src, "regexlits")
		if c.Violated() {
			return
		}
	}
	show := pat
	if len(show) > 40 {
		show = show[:20] + fmt.Sprintf("...(%d bytes)", len(pat))
	}
	c.SampleEvery(13, func() interface{} { return map[string]interface{}{"family": "regexlits", "pattern": show} })
}

// c06PredForms: every small predicate core in every wrapper (parentheses to depth 3, unary minus, operators with
// itself, a following / preceding second predicate), attached to a child step, a '//' step, a parenthesised path, an
// attribute step and a step with an earlier predicate. The builder rewrites predicates by their SHAPE (positional,
// last(), numeric, merge) - each shape in each spelling must come back from Compile.
var c06PredCores = []string{"last()", "position()", "1", "last() - 1", "position() = last()", "position() < 3", "@x", "a", "not(a)", "'x'", "true()", "1 + 1", "last() div 2", "count(a)", "a | b", "a = 1", "position() mod 2", "-1", "1.5", "a[1]", ". = 'x'", "last() = 1 or a"}
var c06PredWraps = []string{"%s", "(%s)", "((%s))", "(((%s)))", "-(%s)", "(%s) = 1", "1 = (%s)", "(%s) and (%s)", "(%s) or @y", "(%s) + 0", "not((%s))", "(%s)][(%s)", "@k][(%s)", "(%s)][@k", "((%s))][1", "1][((%s))", "boolean((%s))", "(%s) | a", "number((%s))", "string((%s))"}

func c06PredForms(c *Case) {
	core := c06PredCores[c.Index%len(c06PredCores)]
	wrap := c06PredWraps[c.Index/len(c06PredCores)]
	pred := strings.ReplaceAll(wrap, "%s", core)
	for _, host := range []string{"a[%s]", "//a[%s]", "(a)[%s]", "@*[%s]", "a/b[%s]/c", "(//a | b)[%s]", "a[b[%s]]", "descendant::a[%s]", "../a[%s]", "a[%s]/@x", "count(a[%s])", "a[%s] = 1"} {
		c.Count("predforms")
		c.c06Check(strings.ReplaceAll(host, "%s", pred), "predforms")
		if c.Violated() {
			return
		}
	}
	c.SampleEvery(23, func() interface{} { return map[string]interface{}{"family": "predforms", "predicate": pred} })
}

// c06CacheFill: Compile looks every constant pattern of matches()/replace() up in the process-wide RegexpCache. What
// Compile does may therefore depend on how many distinct patterns the PROCESS has compiled before: the cache fills up,
// is reset, fills up again. Case 0 walks the default cache (capacity 65536) through two resets; cases 1-3 do the same
// with a cache the client swapped in (capacity 1, 2, 4; the exported variable exists for that). After every reset the
// next expressions must still come back from Compile - a lock kept, a map left nil, a counter overflowing would show
// as a blocked, crashed or panicking Compile (the worker's BLOCKED watchdog decides the first).
func c06CacheFill(c *Case) {
	probe := func(tag string, k int) bool {
		for _, src := range []string{fmt.Sprintf("matches(a, 'cf%s_%dq')", tag, k), fmt.Sprintf("//a[replace(@h, 'cf%s_%d[a-z]+', '-') = 'x']", tag, k), "matches(a, 'cf-again')", "replace('x', 'cf-again', 'y')"} {
			c.Count("cachefill")
			c.c06Check(src, "cachefill")
			if c.Violated() {
				return false
			}
		}
		return true
	}
	fill := func(tag string, n int) bool {
		for i := 0; i < n; i++ {
			src := fmt.Sprintf("matches(a, 'cf%s%d')", tag, i)
			if i%3 == 1 {
				src = fmt.Sprintf("replace(a, 'cf%s%d', 'r')", tag, i)
			}
			var e *xpath.Expr
			var err error
			func() {
				defer func() {
					if x := recover(); x != nil {
						pi, _ := classify(x)
						c.Violation("PANIC-ESCAPED-Compile", map[string]interface{}{"input": src, "construct": "cachefill", "observed": pi.String(), "distinct_patterns_before": i})
					}
				}()
				e, err = xpath.Compile(src)
			}()
			c.Rep.Evals++
			if c.Violated() {
				return false
			}
			if (e == nil) == (err == nil) {
				c.Violation("NEITHER-EXPR-NOR-ERROR", map[string]interface{}{"input": src, "construct": "cachefill", "observed": fmt.Sprint(e, err), "distinct_patterns_before": i})
				return false
			}
		}
		return true
	}
	if c.Index == 0 {
		// default cache: past the capacity twice, probing right after each reset and in between
		for round := 0; round < 2; round++ {
			if !fill(fmt.Sprintf("d%d_", round), 65536+40) || !probe("d", round) {
				return
			}
		}
		c.Nontrivial("cachefill|default")
		c.SampleEvery(1, func() interface{} {
			return map[string]interface{}{"family": "cachefill", "cache": "default", "distinct_patterns": 2 * (65536 + 40)}
		})
		return
	}
	capacity := []int{0, 1, 2, 4}[c.Index]
	saved := xpath.RegexpCache
	defer func() { xpath.RegexpCache = saved }()
	xpath.RegexpCache = xpath.NewLoadingCache(func(key interface{}) (interface{}, error) { return regexp.Compile(key.(string)) }, capacity)
	for round := 0; round < 6; round++ {
		if !fill(fmt.Sprintf("s%d_%d_", capacity, round), capacity+1+round%3) || !probe(fmt.Sprintf("s%d", capacity), round) {
			return
		}
	}
	c.Nontrivial(fmt.Sprintf("cachefill|swapped|%d", capacity))
	c.SampleEvery(1, func() interface{} {
		return map[string]interface{}{"family": "cachefill", "cache": "swapped", "capacity": capacity}
	})
}
