package mon

import (
	"fmt"
	"hash/fnv"
	"os"
	"runtime"
	"sort"
	"strings"
	"sync"
	"sync/atomic"

	"github.com/antchfx/xpath"

	"verif/internal/xdoc"
	"verif/internal/xgen"
	"verif/internal/xref"
)

// C05 - one compiled expression may be used from many goroutines at once.
//
// Observed events: (a) "WARNING: DATA RACE" blocks written by the Go race detector while a round
// runs (the worker is a -race build; reports go to a log file that the worker reads after every
// round, so a report is attributed to the round that produced it); (b) a concurrent call whose
// result digest differs from the digest of the same call run alone beforehand on a fresh compile;
// (c) the worker dying with a fatal runtime error (concurrent map writes), seen by the driver.
// Operations are pure, so every legal history is one where each operation returns its solo value:
// no linearizability search is needed.

func init() {
	Register(&Monitor{
		ID:    "C05",
		Race:  true,
		Level: "exploration",
		Rule: "rounds of g in {2,4,8,16} goroutines x 5-20 operations on 1-3 SHARED compiled expressions, each goroutine with its own navigators over shared read-only documents; operation mix: Select drained / abandoned after k nodes, Evaluate, Compile and CompileWithNS of the same and of other texts followed by evaluation, regexp functions (pattern cache), normalize-space/concat (builder pool), string-join and every other function that captures argument queries in a closure; seeded runtime.Gosched() at navigator calls (calls into user code are the engine's genuine suspension points) diversify interleavings. " +
			"Evidence: pairs of operations on the same *Expr whose [call, return] intervals (logical timestamps from one atomic counter) overlapped, and distinct interleaving signatures (order of call events by goroutine). Non-trivial = a round with at least one overlapping pair; distinct by interleaving signature. Zero overlapping pairs => inconclusive.",
		Assume:        []string{"the Go race detector reports a race only when both accesses happen in the run (sampled schedules, not enumerated)", "harness state: per-goroutine navigators and records, shared documents are immutable"},
		MinNontrivial: tierN(1500, 20000),
		Required:      []string{"overlapping_pairs_same_expr", "op:select", "op:select-abandoned", "op:evaluate", "op:compile", "op:regexp", "op:fresh-pattern", "coldstart:first-engine-use-of-the-process"},
		Families: []Family{
			// (first: the first case a worker process executes must be the first use of the engine in that process)
			{Name: "coldstart", N: func(string) int { return 64 }, Run: c05ColdStart},
			witnessFamily("C05"),
			{Name: "rounds", N: tierN(4000, 150000), Run: c05Round},
		},
	})
}

// raceLog returns new text of the race detector's log file of this process since the last call.
var raceOff int64

func newRaceReports() string {
	gr := os.Getenv("GORACE")
	k := strings.Index(gr, "log_path=")
	if k < 0 {
		return ""
	}
	p := gr[k+len("log_path="):]
	if sp := strings.IndexByte(p, ' '); sp >= 0 {
		p = p[:sp]
	}
	b, err := os.ReadFile(fmt.Sprintf("%s.%d", p, os.Getpid()))
	if err != nil || int64(len(b)) <= raceOff {
		return ""
	}
	s := string(b[raceOff:])
	raceOff = int64(len(b))
	return s
}

// raceBlocks splits race detector output into report blocks that mention package xpath.
func raceBlocks(s string) (blocks []string) {
	for _, b := range strings.Split(s, "==================") {
		if strings.Contains(b, "WARNING: DATA RACE") && strings.Contains(b, "github.com/antchfx/xpath") {
			blocks = append(blocks, strings.TrimSpace(b))
		}
	}
	return
}

// raceSignature de-duplicates a report by the outermost xpath entry points of its two stacks.
func raceSignature(block string) string {
	var entries []string
	for _, part := range strings.Split(block, "\n\n") {
		last := ""
		for _, ln := range strings.Split(part, "\n") {
			t := strings.TrimSpace(ln)
			if strings.HasPrefix(t, "github.com/antchfx/xpath.") {
				if k := strings.LastIndexByte(t, '('); k > 0 {
					last = t[:k]
				} else {
					last = t
				}
			}
		}
		if last != "" && (strings.Contains(part, "Write at") || strings.Contains(part, "Read at") || strings.Contains(part, "Previous")) {
			entries = append(entries, strings.TrimPrefix(last, "github.com/antchfx/xpath."))
		}
	}
	sort.Strings(entries)
	return strings.Join(entries, " <-> ")
}

type c05Op struct {
	kind  string // select, select-abandoned, evaluate, compile, compile-ns
	expr  int
	ctx   int
	k     int
	g     int
	call  int64
	ret   int64
	got   string
	want  string
	other string // text compiled by compile ops
}

func soloDigest(c *Case, src string, ctx *xdoc.Node, mode string, k int) string {
	ce, err := safeCompile(src)
	if err != nil {
		return "COMPILE-ERROR"
	}
	return opDigest(ce, ctx, mode, k, nil)
}

// opDigest runs one operation and digests the observation.
func opDigest(ce *xpath.Expr, ctx *xdoc.Node, mode string, k int, yield func(int64)) (s string) {
	rec := &xdoc.Rec{Limit: OpLimit, Yield: yield}
	defer func() {
		if x := recover(); x != nil {
			pi, budget := classify(x)
			if budget {
				s = "NON-TERMINATION"
			} else {
				s = fmt.Sprintf("PANIC(%s %s)", pi.Type, pi.Msg)
			}
		}
	}()
	var sb strings.Builder
	switch mode {
	case "select", "select-abandoned":
		it := ce.Select(xdoc.NewNav(ctx, rec))
		for i := 0; mode == "select" || i < k; i++ {
			if !it.MoveNext() {
				sb.WriteString("END")
				break
			}
			fmt.Fprintf(&sb, "%d ", xdoc.NodeOf(it.Current()).Ord)
		}
		return sb.String()
	default:
		switch v := ce.Evaluate(xdoc.NewNav(ctx, rec)).(type) {
		case *xpath.NodeIterator:
			for v.MoveNext() {
				fmt.Fprintf(&sb, "%d ", xdoc.NodeOf(v.Current()).Ord)
			}
			return "seq " + sb.String()
		case float64:
			if v != v {
				return "number(NaN)"
			}
			return fmt.Sprintf("number(%v)", v)
		default:
			return fmt.Sprintf("%T(%v)", v, v)
		}
	}
}

// c05Exprs: expressions covering every function that captures argument queries in a closure,
// the regexp cache and the builder pool, plus generated paths and comparisons.
func c05Expr(g *xgen.G, env *xgen.Env) string {
	fixed := []string{
		"string-join(//b, ',')", "string-join(*/*, '-')", "concat(a, '-', b, '-', //c)", "normalize-space(.)", "normalize-space(*[2])",
		"matches(., 'a*b?1?')", "matches(*, '^[0-9]+$')", "replace(., '([0-9])', '<$1>')", "replace(string(*), 'a(.)', '$1$1')", "//*[matches(@id, '^[0-9]$')]",
		"count(//*[ancestor::a])", "ancestor::* = ''", "//b[ancestor::a][following::c]", "sum(//*[number(.) = number(.)])", "translate(., 'abc', 'ABC')",
		"substring-before(., '1')", "contains(., @id)", "starts-with(name(), 'a')", "local-name(*[last()])", "//a[position() = last()]", "(//b)[2]", "//a | //b | //c",
		"reverse(//*)", "lower-case(.)", "string-length(.) + count(*)", "//*[not(preceding-sibling::*)]", "//a[b = c]", "//*[@id = //@id]", "boolean(//a[2])",
		"substring(., 2, 3)", "ends-with(., '0')", "name(//*[3])", "number(.) * 2", "floor(sum(//@id[number(.) = number(.)]))", "//b[contains(., '1') or @k]",
		// positional predicates on non-first steps (merge rewrite), name functions on prefixed nodes, non-literal regex arguments
		"/*/*[2]", "//a/b[last()]", "*/*[position() = 2]", "/*/*/*[1]", "//*/*[last() - 1]", "//c/*[2][@id]",
		"name()", "name(*)", "name(/r/*[2])", "concat(name(), '|', local-name(*), '|', name(..))", "//*[name() = name(..)]", "string-join(//@*, name())",
		"replace(., string(@id), string(@k))", "replace(string(*), concat(@id, ''), name())", "matches(., string(@k))", "//*[matches(., concat('^', @id))]",
		// patterns built at evaluation time that do NOT compile (the complaint is deliberate; whatever remembers it is shared)
		"matches(., concat('[', @id))", "replace(., concat('(', name()), 'x')", "//*[matches(., concat(@id, '**'))]", "matches(string(.), concat('a{', count(*), ',1}'))", "replace(., concat('\\', ''), '-')",
		"floor(//b * 2)", "string(//b + 1)", "not(b = c)", "boolean(a and b)", "count(//a[b = c or @id])", "sum(//b[. = .]) + count(//a)",
	}
	switch r := g.Intn(10); {
	case r < 4:
		return fixed[g.Intn(len(fixed))]
	case r < 7:
		// every function over arguments of arbitrary shape (operators applied directly to node-sets, stacked predicates, ...)
		return xref.Render(g.FuncOverShapes(env))
	}
	return xref.Render(anyExpr(g, env))
}

func c05Round(c *Case) {
	if !c.Canary(5) {
		return
	}
	g := c.G()
	docs := c.docPool("docs", 8, func(dg *xgen.G) *xdoc.Doc {
		if dg.Chance(0.3) {
			return dg.NSTree(false) // prefixed names (no namespace map: matched by prefix)
		}
		return valueDoc(dg)
	})
	d := docs[g.Intn(len(docs))]
	env := &xgen.Env{Doc: d, Ctx: d.Root, Names: namesIn(d)}
	nexpr := 1 + g.Intn(3)
	var srcs []string
	var shared []*xpath.Expr
	for len(srcs) < nexpr {
		s := c05Expr(g, env)
		if xgen.CostEstimateText(s, len(d.Nodes)) > xgen.MaxCost {
			continue
		}
		ce, err := safeCompile(s)
		if err != nil {
			continue
		}
		srcs = append(srcs, s)
		shared = append(shared, ce)
	}
	ctxs := []*xdoc.Node{d.Root, d.Nodes[1], d.Nodes[g.Intn(len(d.Nodes))], d.Nodes[g.Intn(len(d.Nodes))]}
	ng := []int{2, 4, 8, 16}[g.Intn(4)]
	// plan the operations and compute their solo digests beforehand
	var plan [][]*c05Op
	for gi := 0; gi < ng; gi++ {
		n := 5 + g.Intn(16)
		var ops []*c05Op
		for i := 0; i < n; i++ {
			op := &c05Op{g: gi, expr: g.Intn(nexpr), ctx: g.Intn(len(ctxs)), k: 1 + g.Intn(3)}
			switch r := g.Intn(10); {
			case r < 3:
				op.kind = "select"
			case r < 5:
				op.kind = "select-abandoned"
			case r < 8:
				op.kind = "evaluate"
			case r < 9:
				op.kind = "compile"
			default:
				op.kind = []string{"compile-ns", "pkg-select", "mustcompile-invalid"}[g.Intn(3)]
			}
			mode := op.kind
			if strings.HasPrefix(mode, "compile") {
				mode = "evaluate"
			}
			if mode == "pkg-select" {
				mode = "select"
			}
			if op.kind == "mustcompile-invalid" {
				// an expression that does not compile, unique to this operation: MustCompile returns an expression
				// that carries this text and selects nothing
				op.other = fmt.Sprintf("%s[%d%d(", srcs[op.expr], gi, i)
				op.want = op.other + " => END"
				ops = append(ops, op)
				continue
			}
			op.want = soloDigest(c, srcs[op.expr], ctxs[op.ctx], mode, op.k)
			ops = append(ops, op)
		}
		if c.Index%2 == 0 {
			// every goroutine of the round starts by compiling and evaluating the SAME expression with a regular
			// expression no one has used before: the first load of a pattern happens concurrently
			u := fmt.Sprintf("u%dx%d", c.Seed, c.Index)
			fresh := &c05Op{g: gi, kind: "fresh-pattern", other: fmt.Sprintf("concat(string(matches('%sxx', '^%sx*$')), replace('%s-', '(%s)(-)', '$2$1'))", u, u, u, u), want: "string(true-" + u + ")"}
			// ... and one whose pattern, built at evaluation time, does not compile: the deliberate complaint is the same
			// for everyone, and whatever the engine remembers about the failure is written concurrently
			bad := &c05Op{g: gi, kind: "fresh-pattern", other: fmt.Sprintf("matches('x', concat('[%s', substring('(', 1, 1)))", u), want: "PANIC*"}
			ops = append([]*c05Op{fresh, bad}, ops...)
		}
		plan = append(plan, ops)
	}
	// one namespace map shared, read-only, by all goroutines of the round (a client's package-level map)
	sharedNS := map[string]string{"p": "urn:one", "q": "urn:two"}
	// run
	var clock int64
	var wg sync.WaitGroup
	start := make(chan struct{})
	seed := uint64(c.Seed)*1000003 + uint64(c.Index)
	for gi := 0; gi < ng; gi++ {
		wg.Add(1)
		go func(gi int) {
			defer wg.Done()
			h := splitmix64(seed ^ uint64(gi)*0x9e3779b97f4a7c15)
			yield := func(op int64) {
				h = splitmix64(h + uint64(op))
				if h%6 == 0 {
					runtime.Gosched()
				}
			}
			<-start
			for _, op := range plan[gi] {
				op.call = atomic.AddInt64(&clock, 1)
				switch op.kind {
				case "select", "select-abandoned", "evaluate":
					op.got = opDigest(shared[op.expr], ctxs[op.ctx], op.kind, op.k, yield)
				case "compile":
					ce, err := safeCompile(srcs[op.expr])
					if err != nil {
						op.got = "COMPILE-ERROR " + err.Error()
					} else {
						op.got = opDigest(ce, ctxs[op.ctx], "evaluate", 0, yield)
					}
				case "fresh-pattern":
					ce, err := safeCompile(op.other)
					if err != nil {
						op.got = "COMPILE-ERROR " + err.Error()
					} else {
						op.got = opDigest(ce, ctxs[0], "evaluate", 0, yield)
					}
				case "mustcompile-invalid":
					e := xpath.MustCompile(op.other)
					if e == nil {
						op.got = "nil"
					} else {
						op.got = e.String() + " => " + opDigest(e, ctxs[op.ctx], "select", 0, yield)
					}
				case "pkg-select":
					// the deprecated package-level entry point: compiles and selects in one call
					op.got = func() (s string) {
						defer func() {
							if x := recover(); x != nil {
								pi, _ := classify(x)
								s = fmt.Sprintf("PANIC(%s %s)", pi.Type, pi.Msg)
							}
						}()
						var sb strings.Builder
						it := xpath.Select(xdoc.NewNav(ctxs[op.ctx], &xdoc.Rec{Limit: OpLimit, Yield: yield}), srcs[op.expr])
						for it.MoveNext() {
							fmt.Fprintf(&sb, "%d ", xdoc.NodeOf(it.Current()).Ord)
						}
						return sb.String() + "END"
					}()
				case "compile-ns":
					ce, err := xpath.CompileWithNS(srcs[op.expr], sharedNS)
					if err != nil {
						op.got = "COMPILE-ERROR " + err.Error()
					} else {
						op.got = opDigest(ce, ctxs[op.ctx], "evaluate", 0, yield)
					}
				}
				op.ret = atomic.AddInt64(&clock, 1)
			}
		}(gi)
	}
	close(start)
	wg.Wait()
	// oracle (b): every concurrent result equals its solo result
	var all []*c05Op
	for _, ops := range plan {
		all = append(all, ops...)
	}
	for _, op := range all {
		c.Rep.Evals++
		k := op.kind
		if strings.HasPrefix(k, "compile") || k == "pkg-select" || k == "mustcompile-invalid" {
			k = "compile"
		}
		if op.kind == "fresh-pattern" {
			c.Count("op:fresh-pattern")
			if op.want == "PANIC*" {
				// a deliberate complaint (not a Go runtime error), the same in every goroutine
				if !strings.HasPrefix(op.got, "PANIC(") || strings.Contains(op.got, "runtime.") || strings.Contains(op.got, "runtime error") {
					c.Violation("CONCURRENT-RESULT-DIFFERS-FROM-SOLO", map[string]interface{}{"expr": op.other, "operation": "a pattern built at evaluation time that does not compile, first used by all goroutines at once", "goroutine": op.g, "goroutines": ng,
						"concurrent": op.got, "solo": "a deliberate complaint about the pattern"})
					return
				}
				continue
			}
			if op.got != op.want {
				c.Violation("CONCURRENT-RESULT-DIFFERS-FROM-SOLO", map[string]interface{}{"expr": op.other, "operation": "every goroutine compiles and evaluates this expression first; its regular expressions were never used before", "goroutine": op.g, "goroutines": ng,
					"concurrent": op.got, "solo": op.want})
				return
			}
			continue
		}
		c.Count("op:" + k)
		if strings.Contains(srcs[op.expr], "matches(") || strings.Contains(srcs[op.expr], "replace(") {
			c.Count("op:regexp")
		}
		if op.got != op.want {
			c.Violation("CONCURRENT-RESULT-DIFFERS-FROM-SOLO", map[string]interface{}{"expr": srcs[op.expr], "operation": op.kind, "goroutine": op.g, "goroutines": ng,
				"ctx": ctxs[op.ctx].Label(), "doc": d.XML(), "concurrent": op.got, "solo": op.want, "shared_exprs": srcs})
			return
		}
	}
	// oracle (a): race reports produced by this round
	if blocks := raceBlocks(newRaceReports()); len(blocks) > 0 {
		seen := map[string]bool{}
		for _, b := range blocks {
			sg := raceSignature(b)
			if seen[sg] {
				continue
			}
			seen[sg] = true
			if len(b) > 5000 {
				b = b[:5000]
			}
			c.Violation("DATA-RACE", map[string]interface{}{"entry_points": sg, "report": b, "shared_exprs": srcs, "goroutines": ng})
		}
		return
	}
	// evidence: overlapping pairs on the same expression, interleaving signature
	sort.Slice(all, func(i, j int) bool { return all[i].call < all[j].call })
	overlap := 0
	for i, a := range all {
		for _, b := range all[i+1:] {
			if b.call > a.ret {
				break
			}
			if a.expr == b.expr && a.g != b.g && !strings.HasPrefix(a.kind, "compile") && !strings.HasPrefix(b.kind, "compile") && a.kind != "pkg-select" && b.kind != "pkg-select" && a.kind != "mustcompile-invalid" && b.kind != "mustcompile-invalid" {
				overlap++
			}
		}
	}
	c.CountN("overlapping_pairs_same_expr", int64(overlap))
	c.Count(fmt.Sprintf("goroutines:%d", ng))
	if overlap > 0 {
		h := fnv.New64a()
		for _, op := range all {
			h.Write([]byte{byte(op.g), byte(op.expr)})
		}
		c.Nontrivial(fmt.Sprintf("%x|%v", h.Sum64(), srcs))
	}
	c.SampleEvery(97, func() interface{} {
		return map[string]interface{}{"shared_exprs": srcs, "goroutines": ng, "operations": len(all), "overlapping_pairs_same_expr": overlap}
	})
}

func splitmix64(x uint64) uint64 {
	x += 0x9e3779b97f4a7c15
	x = (x ^ (x >> 30)) * 0xbf58476d1ce4e5b9
	x = (x ^ (x >> 27)) * 0x94d049bb133111eb
	return x ^ (x >> 31)
}

// c05ColdStart: the FIRST thing a worker process does with the engine. Everything else in this check warms the
// package up sequentially (solo digests, witnesses) before goroutines meet, so state that is initialised lazily -
// a table built on first use, a pool, a cache, a sync-less "once" - is only ever raced on here: eight goroutines
// step through a battery of expressions in lock-step, so the first use of every facility (each comparison operator,
// arithmetic, every function, regular expressions, unions, positional predicates, Compile itself) happens in all of
// them at once. Expected values come from the reference (no engine call before the goroutines start).
var c05Cold = []string{"1 = 1", "a != 'x'", "//b < 3", "2 <= 2", "//b > 3", "3 >= count(//a)", "1 + 2 * 3 - 4 div 2", "7 mod 3", "-(1)", "//a | //b", "//a[2]", "//a[last()]", "//*[position() = 1]", "(//a)[1]", "//a/..",
	"//b/ancestor::*", "//c/preceding::b", "//a/following-sibling::*", "count(//node())", "sum(//b)", "string(//a)", "concat('x', //b, 'y')", "contains(//a, '1')", "starts-with('abc', 'a')", "ends-with('abc', 'c')",
	"substring('hello', 2, 3)", "substring-before('a-b', '-')", "substring-after('a-b', '-')", "string-length('abc')", "normalize-space('  a  b ')", "translate('abc', 'ab', 'AB')", "lower-case('ABC')", "string-join(//b, ',')",
	"not(//zz)", "boolean(//a)", "true() and false()", "false() or true()", "number('12')", "floor(2.5)", "ceiling(2.5)", "name(/r/*[2])", "local-name(//@*)", "matches('abc', '^a.c$')", "replace('a-b', '(a)-(b)', '$2$1')",
	"reverse(//a)", "//a[@id = '1']", "//a[b = 10]", "//*[not(*)]", "//@id", "//text()", "//comment()", "/", "//a[b][1]", "//a[contains(., '1') or @k]", "(//b)[2]", "//a/(b, c)"}

var c05ColdDoc = xdoc.MustParseXML(`<r><a id="1"><b>10</b><b>7</b><c>t</c></a><a id="2" k="x"><b>1</b><!--n--></a><c>5</c></r>`, false)
var c05ColdDone int32

func c05ColdStart(c *Case) {
	first := atomic.CompareAndSwapInt32(&c05ColdDone, 0, 1)
	if first {
		c.Count("coldstart:first-engine-use-of-the-process")
	} else {
		c.Count("coldstart:warm")
	}
	d := c05ColdDoc
	want := make([]string, len(c05Cold))
	for i, s := range c05Cold {
		v, oof := xref.SafeEval(mustParse(s), xref.NewCtx(d.Root))
		if oof != "" {
			panic("C05 coldstart: reference: " + s + ": " + oof)
		}
		if ns, isNS := v.(xref.NodeSet); isNS {
			var sb strings.Builder
			for _, n := range xref.SortUniq(append(xref.NodeSet(nil), ns...)) {
				fmt.Fprintf(&sb, "%d ", n.Ord)
			}
			want[i] = "set " + sb.String()
		} else {
			want[i] = fmtValue(v)
		}
	}
	const ng = 8
	got := make([][]string, ng)
	var wg sync.WaitGroup
	var arrived int64
	for g := 0; g < ng; g++ {
		got[g] = make([]string, len(c05Cold))
		wg.Add(1)
		go func(g int) {
			defer wg.Done()
			for i, s := range c05Cold {
				// lock-step: wait until every goroutine has finished expression i-1
				atomic.AddInt64(&arrived, 1)
				for atomic.LoadInt64(&arrived) < int64(ng*(i+1)) {
					runtime.Gosched()
				}
				got[g][i] = func() (out string) {
					defer func() {
						if x := recover(); x != nil {
							out = fmt.Sprintf("PANIC(%v)", x)
						}
					}()
					ce, err := xpath.Compile(s)
					if err != nil {
						return "COMPILE-ERROR " + err.Error()
					}
					switch v := ce.Evaluate(xdoc.NewNav(d.Root, nil)).(type) {
					case *xpath.NodeIterator:
						seen := map[int]bool{}
						var ords []int
						for v.MoveNext() {
							if o := xdoc.NodeOf(v.Current()).Ord; !seen[o] {
								seen[o] = true
								ords = append(ords, o)
							}
						}
						sort.Ints(ords)
						var sb strings.Builder
						for _, o := range ords {
							fmt.Fprintf(&sb, "%d ", o)
						}
						return "set " + sb.String()
					case bool:
						return fmt.Sprintf("bool(%v)", v)
					case string:
						return fmt.Sprintf("string(%q)", v)
					case float64:
						return fmt.Sprintf("number(%v)", v)
					default:
						return fmt.Sprintf("%T", v)
					}
				}()
			}
		}(g)
	}
	wg.Wait()
	c.Rep.Evals += int64(ng * len(c05Cold))
	for g := 0; g < ng; g++ {
		for i := range c05Cold {
			if got[g][i] != want[i] {
				c.Violation("CONCURRENT-RESULT-DIFFERS-FROM-SOLO", map[string]interface{}{"expr": c05Cold[i], "operation": "first use of the engine in this process, by 8 goroutines in lock-step", "goroutine": g, "goroutines": ng,
					"concurrent": got[g][i], "solo": want[i], "doc": d.XML(), "first_engine_use_of_the_process": first})
				return
			}
		}
	}
	if blocks := raceBlocks(newRaceReports()); len(blocks) > 0 {
		seen := map[string]bool{}
		for _, b := range blocks {
			sg := raceSignature(b)
			if seen[sg] {
				continue
			}
			seen[sg] = true
			if len(b) > 5000 {
				b = b[:5000]
			}
			c.Violation("DATA-RACE", map[string]interface{}{"entry_points": sg, "report": b, "operation": "first use of the engine in this process, by 8 goroutines in lock-step", "first_engine_use_of_the_process": first})
		}
		return
	}
	c.Nontrivial(fmt.Sprintf("coldstart|%d", c.Index))
	c.Sample(map[string]interface{}{"family": "coldstart", "expressions": len(c05Cold), "goroutines": ng, "first_engine_use_of_the_process": first})
}
