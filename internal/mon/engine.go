package mon

import (
	"fmt"
	"math"
	"os"
	"runtime"
	"strings"
	"sync/atomic"

	"github.com/antchfx/xpath"

	"verif/internal/xdoc"
)

// OpLimit is the navigator-operation budget of one evaluation. The largest count ever
// observed on the harness documents (<= 130 nodes) is reported in every evidence file
// (max_ops_one_eval). Workloads skip expressions whose estimated engine cost (xgen.CostEstimate: deliveries
// without de-duplication, every document-wide step multiplying by the document size) exceeds 3*10^6
// deliveries, so every legitimate evaluation stays well below the budget.
const OpLimit = 200_000_000

// PanicInfo classifies a recovered panic.
type PanicInfo struct {
	Type    string `json:"type"`    // dynamic type of the panic value
	Runtime bool   `json:"runtime"` // implements runtime.Error
	Msg     string `json:"msg"`
	Frame   string `json:"frame"` // top-most frame of package xpath on the panicking stack
}

func (p *PanicInfo) String() string {
	if p == nil {
		return ""
	}
	return fmt.Sprintf("panic(%s runtime=%v %q at %s)", p.Type, p.Runtime, p.Msg, p.Frame)
}

// BudgetHits counts the evaluations of this process that exhausted the navigator-op budget. Each one
// costs a full budget of CPU, so the worker stops after three (whatever the monitor made of them).
var BudgetHits atomic.Int64

func classify(x interface{}) (pi *PanicInfo, budget bool) {
	if _, ok := x.(xdoc.Budget); ok {
		BudgetHits.Add(1)
		return nil, true
	}
	pi = &PanicInfo{Type: fmt.Sprintf("%T", x), Msg: fmt.Sprint(x)}
	if len(pi.Msg) > 300 {
		pi.Msg = pi.Msg[:300]
	}
	_, pi.Runtime = x.(runtime.Error)
	buf := make([]byte, 16384)
	stack := string(buf[:runtime.Stack(buf, false)])
	for _, ln := range strings.Split(stack, "\n") {
		if strings.Contains(ln, "github.com/antchfx/xpath.") {
			f := strings.TrimSpace(ln)
			if k := strings.LastIndex(f, "("); k > 0 {
				f = f[:k]
			}
			pi.Frame = strings.TrimPrefix(f, "github.com/antchfx/xpath.")
			break
		}
	}
	return pi, false
}

// SelResult is what one Select iteration delivered.
type SelResult struct {
	Nodes   []*xdoc.Node // delivery sequence (order and duplicates preserved)
	Panic   *PanicInfo
	Budget  bool // navigator-op budget exhausted: the evaluation does not terminate
	Foreign int  // deliveries whose Current() was not a harness navigator of this document
	Ops     int64
}

func (r SelResult) Aborted() bool { return r.Panic != nil || r.Budget }

func (c *Case) account(ops int64) {
	if ops > 3_000_000 && os.Getenv("VERIF_DEBUG_OPS") != "" {
		fmt.Fprintf(os.Stderr, "HEAVY %s %s:%d ops=%d\n", c.Prop, c.Family, c.Index, ops)
	}
	c.Rep.Evals++
	c.Rep.NavOps += ops
	if ops > c.Rep.MaxOps {
		c.Rep.MaxOps = ops
	}
}

func drain(it *xpath.NodeIterator, d *xdoc.Doc, res *SelResult) {
	for it.MoveNext() {
		n := xdoc.NodeOf(it.Current())
		if n == nil || n.Doc != d {
			res.Foreign++
			continue
		}
		res.Nodes = append(res.Nodes, n)
	}
}

// RunSelect drains expr.Select(ctx) under recover and the op budget.
func (c *Case) RunSelect(e *xpath.Expr, ctx *xdoc.Node) (res SelResult) {
	return c.RunSelectLimit(e, ctx, OpLimit)
}

// RunSelectLimit is RunSelect with an operation budget of its own (for the few hand-listed evaluations over
// documents of several hundred thousand nodes, whose legitimate cost is within a small factor of OpLimit).
func (c *Case) RunSelectLimit(e *xpath.Expr, ctx *xdoc.Node, limit int64) (res SelResult) {
	rec := &xdoc.Rec{Limit: limit}
	defer func() {
		if x := recover(); x != nil {
			res.Panic, res.Budget = classify(x)
		}
		res.Ops = rec.Ops
		c.account(rec.Ops)
	}()
	drain(e.Select(xdoc.NewNav(ctx, rec)), ctx.Doc, &res)
	return
}

// EvalResult is the value Evaluate returned.
type EvalResult struct {
	Kind   string // bool, number, string, nodeset, nil, other
	B      bool
	F      float64
	S      string
	Nodes  []*xdoc.Node
	GoType string
	Panic  *PanicInfo
	Budget bool
	Ops    int64
}

func (r EvalResult) Aborted() bool { return r.Panic != nil || r.Budget }

func (r EvalResult) String() string {
	switch {
	case r.Budget:
		return "NON-TERMINATION(budget)"
	case r.Panic != nil:
		return r.Panic.String()
	}
	switch r.Kind {
	case "bool":
		return fmt.Sprintf("bool(%v)", r.B)
	case "number":
		return fmt.Sprintf("number(%v)", r.F)
	case "string":
		return fmt.Sprintf("string(%q)", r.S)
	case "nodeset":
		return "nodeset" + xdoc.Labels(r.Nodes)
	}
	return r.Kind + "(" + r.GoType + ")"
}

// RunEvaluate calls expr.Evaluate(ctx) under recover and the op budget; a node-set result is drained.
func (c *Case) RunEvaluate(e *xpath.Expr, ctx *xdoc.Node) (res EvalResult) {
	rec := &xdoc.Rec{Limit: OpLimit}
	defer func() {
		if x := recover(); x != nil {
			res.Panic, res.Budget = classify(x)
		}
		res.Ops = rec.Ops
		c.account(rec.Ops)
	}()
	v := e.Evaluate(xdoc.NewNav(ctx, rec))
	res.GoType = fmt.Sprintf("%T", v)
	switch x := v.(type) {
	case bool:
		res.Kind, res.B = "bool", x
	case float64:
		res.Kind, res.F = "number", x
	case string:
		res.Kind, res.S = "string", x
	case *xpath.NodeIterator:
		res.Kind = "nodeset"
		var sr SelResult
		drain(x, ctx.Doc, &sr)
		res.Nodes = sr.Nodes
	case nil:
		res.Kind = "nil"
	default:
		res.Kind = "other"
	}
	return
}

// SameNumber: identical as XPath numbers (NaN equals NaN, +0 equals -0).
func SameNumber(a, b float64) bool {
	if math.IsNaN(a) || math.IsNaN(b) {
		return math.IsNaN(a) && math.IsNaN(b)
	}
	return a == b
}

// AsSet returns the distinct nodes in document order and whether there were duplicates.
func AsSet(ns []*xdoc.Node) (out []*xdoc.Node, dup bool) {
	seen := make(map[*xdoc.Node]bool, len(ns))
	for _, n := range ns {
		if seen[n] {
			dup = true
			continue
		}
		seen[n] = true
		out = append(out, n)
	}
	// insertion sort by document order (sets are small)
	for i := 1; i < len(out); i++ {
		for j := i; j > 0 && out[j-1].Ord > out[j].Ord; j-- {
			out[j-1], out[j] = out[j], out[j-1]
		}
	}
	return
}

func SameNodes(a, b []*xdoc.Node) bool {
	if len(a) != len(b) {
		return false
	}
	for i := range a {
		if a[i] != b[i] {
			return false
		}
	}
	return true
}

func Ords(ns []*xdoc.Node) []int {
	out := make([]int, len(ns))
	for i, n := range ns {
		out[i] = n.Ord
	}
	return out
}
