package mon

import (
	"fmt"
	"sort"
	"strings"

	"github.com/antchfx/xpath"

	"verif/internal/xdoc"
	"verif/internal/xgen"
	"verif/internal/xref"
)

// C14 - name tests, namespaces and name functions identify nodes as documented.
//
// Configurations fixed by the statement:
//   (i)   no namespace map: a test prefix:local matches exactly the nodes with that prefix and local
//         name, an unprefixed test only unprefixed nodes - with both navigator kinds;
//   (ii)  CompileWithNS and a navigator exposing NamespaceURL: a prefixed test matches by (URI bound
//         to the prefix, local name) whatever prefix the document uses;
//   (iii) a prefix missing from a non-nil map (incl. the empty map) is a compile error; with a nil map
//         the same text compiles.
// Not asserted (statement silent): map given but navigator without URIs; prefix:*; unprefixed tests under a map.

func init() {
	Register(&Monitor{
		ID:    "C14",
		Level: "exploration",
		Rule: "documents with elements/attributes in 0..3 namespaces under several prefixes per URI, default namespace and prefixed attributes, with and without a NamespaceURL-exposing navigator; namespace maps {nil, {}, bound to each URI, two prefixes -> one URI, rebinding a document prefix to another URI, missing prefix}; paths of 1-3 steps with name tests on all 12 axes (names drawn from the (prefix, local) pairs present and from the map), selected from every kind of context; name()/local-name()/namespace-uri() with no argument and with a flat node-set argument, at top level and inside predicates. " +
			"Non-trivial: non-empty denotation of a path with a prefixed test, or a non-empty function result; distinct by (configuration, map, expression, document, context).",
		Assume:        []string{"reference evaluator internal/xref with the statement's three matching rules"},
		MinNontrivial: tierN(5000, 60000),
		Required:      []string{"config:i-nav", "config:i-navns", "config:ii", "config:iii-rejected", "config:iii-nil-accepted", "fn:name", "fn:local-name", "fn:namespace-uri", "match:different-prefix-same-uri", "rebinding", "fn-with-argument-in-predicate", "stacked-predicate-argument"},
		Families: []Family{
			witnessFamily("C14"),
			{Name: "paths", N: tierN(120000, 6000000), Run: c14Paths},
			{Name: "funcs", N: tierN(60000, 3000000), Run: c14Funcs},
			{Name: "big", N: func(string) int { return len(c14BigList()) }, Run: c14Big},
			{Name: "maporder", N: func(string) int { return len(c14MoTexts) * 8 }, Run: c14MapOrder},
		},
	})
}

type qn struct{ prefix, local string }

func docQNames(d *xdoc.Doc) (elems, attrs []qn) {
	se, sa := map[qn]bool{}, map[qn]bool{}
	for _, n := range d.Nodes {
		switch n.Kind {
		case xdoc.Element:
			if !se[qn{n.Prefix, n.Name}] {
				se[qn{n.Prefix, n.Name}] = true
				elems = append(elems, qn{n.Prefix, n.Name})
			}
		case xdoc.Attr:
			if !sa[qn{n.Prefix, n.Name}] {
				sa[qn{n.Prefix, n.Name}] = true
				attrs = append(attrs, qn{n.Prefix, n.Name})
			}
		}
	}
	return
}

// c14Map draws a namespace map for document d: nil, bound like the document, other prefixes for the
// same URIs, or rebinding a document prefix to a different URI.
func c14Map(g *xgen.G, d *xdoc.Doc) (m map[string]string, kind string) {
	uris := map[string]string{} // document prefix -> URI
	for _, n := range d.Nodes {
		if (n.Kind == xdoc.Element || n.Kind == xdoc.Attr) && n.Prefix != "" && n.NS != "" {
			uris[n.Prefix] = n.NS
		}
	}
	var defNS []string
	for _, n := range d.Nodes {
		if n.Kind == xdoc.Element && n.Prefix == "" && n.NS != "" {
			defNS = append(defNS, n.NS)
		}
	}
	switch g.Intn(4) {
	case 0:
		m = map[string]string{}
		for p, u := range uris {
			m[p] = u
		}
		kind = "as-document"
	case 1:
		// fresh prefixes x,y,z for the three URIs (and d for a default namespace in use)
		m = map[string]string{"x": xgen.NSURIs[0], "y": xgen.NSURIs[1], "z": xgen.NSURIs[2], "x2": xgen.NSURIs[0]}
		if len(defNS) > 0 {
			m["d"] = defNS[0]
		}
		kind = "other-prefixes"
	case 2:
		m = map[string]string{}
		for p, u := range uris {
			m[p] = u
		}
		// rebind one document prefix to another URI
		ps := make([]string, 0, len(uris))
		for p := range uris {
			ps = append(ps, p)
		}
		sort.Strings(ps)
		if len(ps) > 0 {
			p := ps[g.Intn(len(ps))]
			m[p] = xgen.NSURIs[g.Intn(len(xgen.NSURIs))]
		}
		m["x"] = xgen.NSURIs[g.Intn(3)]
		kind = "rebinding"
	default:
		m = map[string]string{"p": xgen.NSURIs[g.Intn(3)], "q": xgen.NSURIs[g.Intn(3)], "r": "urn:none", "x": xgen.NSURIs[g.Intn(3)]}
		if g.Chance(0.5) {
			m[g.Pick("p", "q", "x")] = "" // bound to the EMPTY namespace URI: matches (no namespace, local name), not the literal prefix
		}
		kind = "arbitrary"
	}
	return
}

func c14Path(g *xgen.G, elems, attrs []qn, prefixes []string, forcePrefixed bool) xref.Path {
	pickTest := func(axis string) xref.Test {
		pool := elems
		if axis == "attribute" {
			pool = attrs
		}
		if len(pool) == 0 || g.Chance(0.1) {
			return xref.Test{Kind: "name", Prefix: pick(g, prefixes), Local: g.Pick("a", "b", "id")}
		}
		q := pool[g.Intn(len(pool))]
		t := xref.Test{Kind: "name", Prefix: q.prefix, Local: q.local}
		if len(prefixes) > 0 && (forcePrefixed || g.Chance(0.6)) {
			t.Prefix = pick(g, prefixes)
		}
		return t
	}
	p := xref.Path{Abs: g.Chance(0.4)}
	n := 1 + g.Intn(3)
	for i := 0; i < n; i++ {
		if g.Chance(0.3) && (i > 0 || p.Abs) {
			p.Steps = append(p.Steps, xgen.DSlash())
		}
		axis := xref.AxisNames[g.Intn(len(xref.AxisNames))]
		if g.Chance(0.4) {
			axis = "child"
		}
		s := &xref.Step{Axis: axis, Test: pickTest(axis)}
		if i < n-1 && g.Chance(0.3) {
			s.Test = xref.Test{Kind: g.Pick("*", "node")}
		}
		if axis == "child" && g.Chance(0.6) {
			s.Abbrev = "child"
		} else if axis == "attribute" && g.Chance(0.6) {
			s.Abbrev = "@"
		}
		p.Steps = append(p.Steps, s)
	}
	return p
}

func pick(g *xgen.G, xs []string) string {
	if len(xs) == 0 {
		return ""
	}
	return xs[g.Intn(len(xs))]
}

func mapPrefixes(m map[string]string) []string {
	var ps []string
	for p := range m {
		ps = append(ps, p)
	}
	sort.Strings(ps)
	return ps
}

func hasPrefixedTest(e xref.Expr) (found bool, prefixes []string) {
	xref.WalkSteps(e, func(s *xref.Step) {
		if s.Test.Kind == "name" && s.Test.Prefix != "" {
			found = true
			prefixes = append(prefixes, s.Test.Prefix)
		}
	})
	return
}

func c14Paths(c *Case) {
	g := c.G()
	hasNS := c.Index%3 != 0
	d := c.GShared(fmt.Sprint("doc", hasNS), int64(c.Index/9)).NSTree(hasNS)
	ctx := d.Nodes[g.Intn(len(d.Nodes))]
	if g.Chance(0.4) {
		ctx = d.Root
	}
	elems, attrs := docQNames(d)
	docPrefixes := []string{"", "p", "q", "r", "p2"}
	config := "i"
	var m map[string]string
	mkind := "nil"
	if hasNS && g.Chance(0.6) {
		config = "ii"
		m, mkind = c14Map(g, d)
	}
	var p xref.Path
	if config == "ii" {
		p = c14Path(g, elems, attrs, mapPrefixes(m), false)
	} else {
		p = c14Path(g, elems, attrs, docPrefixes, false)
	}
	if g.Chance(0.25) {
		// a prefixed test directly followed by an operator name, inside a predicate: //*[p:a and q:b], [p:a or ..], [count(p:a) div 1 = 1]
		pools := docPrefixes
		if config == "ii" {
			pools = mapPrefixes(m)
		}
		q1 := c14Path(g, elems, attrs, pools, true)
		q2 := c14Path(g, elems, attrs, pools, true)
		q1.Abs, q2.Abs = false, false
		q1.Steps, q2.Steps = q1.Steps[len(q1.Steps)-1:], q2.Steps[len(q2.Steps)-1:]
		var pred xref.Expr
		switch g.Intn(3) {
		case 0:
			pred = xref.Bin{Op: g.Pick("and", "or"), L: q1, R: q2}
		case 1:
			pred = xref.Bin{Op: "=", L: xref.Bin{Op: g.Pick("div", "mod"), L: xref.Call{Name: "count", Args: []xref.Expr{q1}}, R: xref.Num{Lex: "1"}}, R: xref.Num{Lex: g.Pick("0", "1")}}
		default:
			pred = xref.Bin{Op: g.Pick("and", "or"), L: q1, R: xref.Call{Name: "not", Args: []xref.Expr{q2}}}
		}
		p = xref.Path{Abs: true, Steps: []*xref.Step{xgen.DSlash(), {Axis: "child", Abbrev: "child", Test: xref.Test{Kind: "*"}, Preds: []xref.Expr{pred}}}}
	}
	if c.expensive(p, d) {
		return
	}
	src := xref.Render(p)
	prefixed, used := hasPrefixedTest(p)
	det := func() map[string]interface{} {
		dd := docDetail(d, ctx)
		dd["expr"], dd["config"], dd["ns_map"], dd["map_kind"] = src, config, fmt.Sprint(m), mkind
		return dd
	}
	if !prefixed && hasNS {
		// the namespace map concerns prefixed tests only: an expression WITHOUT any prefixed test selects the same
		// nodes whatever map it is compiled with (nil, empty, keys for real prefixes, a key for the empty prefix)
		base := c.compile(src, det)
		if base == nil {
			return
		}
		b := c.RunSelect(base, ctx)
		bs, _ := AsSet(b.Nodes)
		for _, mm := range []map[string]string{{}, {"": xgen.NSURIs[g.Intn(3)]}, {"": ""}, {"p": xgen.NSURIs[0], "": xgen.NSURIs[1]}, m} {
			if mm == nil {
				continue
			}
			ce2, err2 := safeCompileNS(src, mm)
			c.Rep.Evals++
			if err2 != nil {
				dd := det()
				dd["ns_map"], dd["error"] = fmt.Sprint(mm), err2.Error()
				c.Violation("PREFIX-FREE-EXPRESSION-REJECTED-UNDER-A-MAP", dd)
				return
			}
			o := c.RunSelect(ce2, ctx)
			os, _ := AsSet(o.Nodes)
			c.Count("map-irrelevant-without-prefix")
			if o.Aborted() || !SameNodes(os, bs) {
				dd := det()
				dd["ns_map"], dd["without_map"], dd["with_map"] = fmt.Sprint(mm), xdoc.Labels(bs), xdoc.Labels(os)
				c.Violation("MAP-CHANGES-A-PREFIX-FREE-EXPRESSION", dd)
				return
			}
		}
	}
	if config == "ii" {
		// unprefixed name tests under a map are not asserted against the reference (statement silent)
		silent := false
		xref.WalkSteps(p, func(s *xref.Step) {
			if s.Test.Kind == "name" && s.Test.Prefix == "" {
				silent = true
			}
		})
		if silent {
			c.Skip("unprefixed name test under a namespace map (statement silent)")
			return
		}
		// (iii) a prefix missing from the map is a compile error; with nil it compiles
		missing := false
		for _, pr := range used {
			if _, ok := m[pr]; !ok {
				missing = true
			}
		}
		ce, err := xpath.CompileWithNS(src, m)
		c.Rep.Evals++
		if missing {
			if err == nil || ce != nil {
				c.Violation("UNBOUND-PREFIX-ACCEPTED", det())
			} else {
				c.Count("config:iii-rejected")
			}
			return
		}
		if err != nil {
			dd := det()
			dd["error"] = err.Error()
			c.Violation("BOUND-PREFIXES-REJECTED", dd)
			return
		}
		rc := xref.NewCtx(ctx)
		rc.NS, rc.UseNS = m, true
		want, ok, why := refNodeSet(p, rc)
		if !ok {
			panic("C14: reference: " + why)
		}
		c.Count("config:ii")
		got := c.RunSelect(ce, ctx)
		gs, _ := AsSet(got.Nodes)
		if got.Aborted() || !SameNodes(gs, want) {
			dd := det()
			dd["expected"], dd["observed"], dd["abort"] = xdoc.Labels(want), xdoc.Labels(gs), fmt.Sprint(got.Panic.String(), got.Budget)
			c.Violation("NAME-TEST-BY-URI", dd)
			return
		}
		if mkind == "rebinding" {
			c.Count("rebinding")
		}
		if len(want) > 0 && prefixed {
			c.Nontrivial(fmt.Sprintf("ii|%v|%s|%d|%d", m, src, c.Index/9, ctx.Ord))
			for _, n := range want {
				for _, s := range p.Steps[len(p.Steps)-1:] {
					if s.Test.Kind == "name" && s.Test.Prefix != n.Prefix {
						c.Count("match:different-prefix-same-uri")
					}
				}
			}
		}
		// the empty map rejects every prefixed test; the nil map accepts it
		if prefixed {
			if e2, err2 := xpath.CompileWithNS(src, map[string]string{}); err2 == nil || e2 != nil {
				c.Violation("UNBOUND-PREFIX-ACCEPTED", map[string]interface{}{"expr": src, "ns_map": "{} (empty, non-nil)"})
				return
			}
			c.Count("config:iii-rejected")
			if _, err3 := xpath.CompileWithNS(src, nil); err3 != nil {
				c.Violation("NIL-MAP-REJECTS-PREFIX", map[string]interface{}{"expr": src, "error": err3.Error()})
				return
			}
			c.Count("config:iii-nil-accepted")
		}
	} else {
		ce := c.compile(src, det)
		if ce == nil {
			return
		}
		want, ok, why := refNodeSet(p, xref.NewCtx(ctx))
		if !ok {
			panic("C14: reference: " + why)
		}
		if hasNS {
			c.Count("config:i-navns")
		} else {
			c.Count("config:i-nav")
		}
		got := c.RunSelect(ce, ctx)
		gs, _ := AsSet(got.Nodes)
		if got.Aborted() || !SameNodes(gs, want) {
			dd := det()
			dd["expected"], dd["observed"], dd["abort"] = xdoc.Labels(want), xdoc.Labels(gs), fmt.Sprint(got.Panic.String(), got.Budget)
			c.Violation("NAME-TEST-BY-PREFIX", dd)
			return
		}
		if len(want) > 0 {
			c.Nontrivial(fmt.Sprintf("i|%v|%s|%d|%d", hasNS, src, c.Index/9, ctx.Ord))
		}
	}
	c.SampleEvery(4001, func() interface{} {
		return map[string]interface{}{"family": "paths", "config": config, "ns_map": fmt.Sprint(m), "expr": src, "doc": d.XML(), "ctx": ctx.Label(), "navigator_exposes_uri": hasNS}
	})
}

func c14Funcs(c *Case) {
	g := c.G()
	hasNS := c.Index%3 != 0
	d := c.GShared(fmt.Sprint("fdoc", hasNS), int64(c.Index/9)).NSTree(hasNS)
	if (c.Index/9)%4 == 1 {
		// namespace declarations exposed as attributes whose LocalName() is "xmlns:p" and whose Prefix() is empty (the
		// package's own test navigator does that): name() reports "xmlns:p", and that is what a literal must equal
		dg := c.GShared(fmt.Sprint("fdocx", hasNS), int64(c.Index/9))
		d = dg.NSTree(hasNS)
		for _, n := range append([]*xdoc.Node(nil), d.Nodes...) {
			if n.Kind == xdoc.Element && dg.Chance(0.4) {
				n.AddAttr("", "xmlns:"+dg.Pick("p", "q", "b"), "", "urn:x")
			}
		}
		d.Finish()
		c.Count("navigator:colon-in-localname")
	}
	ctx := d.Nodes[g.Intn(len(d.Nodes))]
	fns := []string{"name", "local-name"}
	if hasNS {
		fns = append(fns, "namespace-uri")
	}
	fn := fns[g.Intn(len(fns))]
	var e xref.Expr
	stackedArg := false // the argument carries a predicate AFTER another one: outside the fragments of C02/C03, no reference denotation is claimed for it
	flat := func() xref.Expr {
		p := xref.Path{}
		n := 1 + g.Intn(2)
		for i := 0; i < n; i++ {
			if i == n-1 && g.Chance(0.3) {
				p.Steps = append(p.Steps, &xref.Step{Axis: "attribute", Abbrev: "@", Test: xref.Test{Kind: "*"}})
				break
			}
			p.Steps = append(p.Steps, &xref.Step{Axis: "child", Abbrev: "child", Test: xref.Test{Kind: g.Pick("*", "node", "*")}})
		}
		if g.Chance(0.15) {
			stackedArg = false
			return xref.Path{Steps: []*xref.Step{{Axis: "child", Abbrev: "child", Test: xref.Test{Kind: "name", Local: "nosuch"}}}}
		}
		if g.Chance(0.2) {
			stackedArg = false
			return xref.Path{Steps: []*xref.Step{xgen.SelfDot()}}
		}
		if last := p.Steps[len(p.Steps)-1]; last.Axis == "child" && g.Chance(0.35) {
			// the argument's first node is found through predicates, stacked ones included: X[2], X[last()], X[p][n],
			// X[position() > 1][1] - and found again on every later evaluation of the same compiled function
			tr := xref.Call{Name: "true"}
			gt := xref.Bin{Op: ">", L: xref.Call{Name: "position"}, R: xref.Num{Lex: "1"}}
			at := xref.Path{Steps: []*xref.Step{{Axis: "attribute", Abbrev: "@", Test: xref.Test{Kind: "*"}}}}
			k := g.Intn(6)
			stackedArg = k >= 2
			switch k {
			case 0:
				last.Preds = []xref.Expr{xref.Num{Lex: g.Pick("1", "2", "3")}}
			case 1:
				last.Preds = []xref.Expr{xref.Call{Name: "last"}}
			case 2:
				last.Preds = []xref.Expr{tr, xref.Num{Lex: g.Pick("1", "2")}}
			case 3:
				last.Preds = []xref.Expr{gt, xref.Num{Lex: g.Pick("1", "2")}}
			case 4:
				last.Preds = []xref.Expr{at, xref.Num{Lex: g.Pick("1", "2")}}
			default:
				last.Preds = []xref.Expr{xref.Num{Lex: "2"}, tr}
			}
		}
		if g.Chance(0.25) {
			// a path argument that ENDS in '.' or self::node() is still a path, not the context node
			p.Steps = append(p.Steps, []*xref.Step{xgen.SelfDot(), {Axis: "self", Test: xref.Test{Kind: "node"}}}[g.Intn(2)])
		}
		return p
	}
	mode := g.Intn(4)
	switch mode {
	case 0:
		e = xref.Call{Name: fn}
	case 1:
		e = xref.Call{Name: fn, Args: []xref.Expr{flat()}}
	case 3:
		// the function WITH a node-set argument inside a predicate: evaluated once per candidate by one compiled
		// function; compared with a value the function takes somewhere in the document
		arg := flat()
		var lits []string
		for _, n := range d.Nodes {
			if n.Kind == xdoc.Element || n.Kind == xdoc.Attr {
				if v, _ := xref.SafeEval(xref.Call{Name: fn}, xref.NewCtx(n)); v != nil {
					if sv, isStr := v.(string); isStr && sv != "" {
						lits = append(lits, sv)
					}
				}
			}
		}
		lit := "nosuch"
		if len(lits) > 0 {
			lit = lits[g.Intn(len(lits))]
		}
		cmp := xref.Bin{Op: g.Pick("=", "=", "!="), L: xref.Call{Name: fn, Args: []xref.Expr{arg}}, R: xref.Str{V: lit}}
		e = xref.Path{Abs: true, Steps: []*xref.Step{xgen.DSlash(), {Axis: "child", Abbrev: "child", Test: xref.Test{Kind: "*"}, Preds: []xref.Expr{cmp}}}}
		c.Count("fn-with-argument-in-predicate")
		if !stackedArg {
			mode = 2
		}
	default:
		// inside a predicate: //node()[fn() = 'value of some node'] resp. //@*[...]
		target := d.Nodes[g.Intn(len(d.Nodes))]
		v, _ := xref.SafeEval(xref.Call{Name: fn}, xref.NewCtx(target))
		lit, _ := v.(string)
		switch g.Intn(8) {
		case 0: // near misses of a qualified name
			lit = ":" + lit
		case 1:
			lit = lit + ":"
		case 2:
			if k := strings.Index(lit, ":"); k >= 0 {
				lit = lit[k+1:] // the local part alone
			}
		}
		var cmp xref.Expr = xref.Bin{Op: g.Pick("=", "!="), L: xref.Call{Name: fn}, R: xref.Str{V: lit}}
		if g.Chance(0.4) {
			cmp = xref.Bin{Op: g.Pick("=", "!="), L: xref.Str{V: lit}, R: xref.Call{Name: fn}} // the literal on the left
		}
		st := &xref.Step{Axis: "child", Abbrev: "child", Test: xref.Test{Kind: g.Pick("*", "node")}, Preds: []xref.Expr{cmp}}
		if target.Kind == xdoc.Attr || g.Chance(0.2) {
			st = &xref.Step{Axis: "attribute", Abbrev: "@", Test: xref.Test{Kind: "*"}, Preds: st.Preds}
		}
		e = xref.Path{Abs: true, Steps: []*xref.Step{xgen.DSlash(), st}}
	}
	src := xref.Render(e)
	c.Count("fn:" + fn)
	if stackedArg && (mode == 1 || mode == 3) {
		c14StackedArg(c, d, ctx, fn, e, mode)
		return
	}
	if mode == 2 {
		want, ok, why := refNodeSet(e, xref.NewCtx(ctx))
		if !ok {
			c.Skip("out-of-fragment: " + why)
			return
		}
		ce := c.compile(src, func() map[string]interface{} { return docDetail(d, ctx) })
		if ce == nil {
			return
		}
		if _, good := c.checkSelectSet(ce, src, ctx, want); good && len(want) > 0 {
			c.Nontrivial(fmt.Sprintf("p|%v|%s|%d", hasNS, src, c.Index/9))
		}
		return
	}
	want, ok := c.scalarCheck(e, ctx, "ABORT")
	if ok && want != nil && want.(string) != "" {
		c.Nontrivial(fmt.Sprintf("f|%v|%s|%d|%d", hasNS, src, c.Index/9, ctx.Ord))
	}
	c.SampleEvery(4001, func() interface{} {
		return map[string]interface{}{"family": "funcs", "expr": src, "ctx": ctx.Label(), "value": fmtValue(want), "doc": d.XML()}
	})
}

// c14StackedArg: name functions over an argument whose first node is found through STACKED predicates (X[p][n]).
// No reference denotation is claimed for such an argument (positional predicates behind another predicate are outside
// the fragments of C02/C03); what the function must report is the name of the first node, in document order, of what
// THE ENGINE ITSELF selects for that argument from the same context node (a freshly compiled argument, Select) - the
// first time and every later time the same compiled function is asked, at the top level (mode 1) and once per
// candidate inside a predicate (mode 3).
func c14StackedArg(c *Case, d *xdoc.Doc, ctx *xdoc.Node, fn string, e xref.Expr, mode int) {
	var call xref.Call
	if mode == 1 {
		call = e.(xref.Call)
	} else {
		call = e.(xref.Path).Steps[1].Preds[0].(xref.Bin).L.(xref.Call)
	}
	arg := call.Args[0]
	if c.expensive(e, d) {
		return
	}
	src, argSrc := xref.Render(e), xref.Render(arg)
	det := func() map[string]interface{} { return docDetail(d, ctx) }
	ace, fce := c.compile(argSrc, det), c.compile(src, det)
	if ace == nil || fce == nil {
		return
	}
	fnAt := func(at *xdoc.Node) (string, bool) {
		sel := c.RunSelect(ace, at)
		if sel.Aborted() {
			return "", false
		}
		var first *xdoc.Node
		for _, n := range sel.Nodes {
			if first == nil || n.Ord < first.Ord {
				first = n
			}
		}
		if first == nil {
			return "", true
		}
		v, _ := xref.SafeEval(xref.Call{Name: fn}, xref.NewCtx(first))
		sv, _ := v.(string)
		return sv, true
	}
	c.Count("stacked-predicate-argument")
	if mode == 1 {
		other := d.Nodes[(ctx.Ord*7+3)%len(d.Nodes)]
		nontrivial := false
		for round, at := range []*xdoc.Node{ctx, other, ctx, ctx.Doc.Root.Children[0], ctx} {
			want, ok := fnAt(at)
			if !ok {
				c.Skip("argument aborted")
				return
			}
			got := c.RunEvaluate(fce, at)
			if got.Kind != "string" || got.S != want {
				dd := docDetail(d, at)
				dd["expr"], dd["expected"], dd["observed"], dd["evaluation"] = src, fmt.Sprintf("%q (the %s of the first node the engine selects for %s)", want, fn, argSrc), got.String(), round+1
				c.Violation("VALUE", dd)
				return
			}
			nontrivial = nontrivial || want != ""
		}
		if nontrivial {
			c.Nontrivial(fmt.Sprintf("s|%s|%d|%d", src, c.Index/9, ctx.Ord))
		}
		return
	}
	cmp := e.(xref.Path).Steps[1].Preds[0].(xref.Bin)
	lit := cmp.R.(xref.Str).V
	var want xref.NodeSet
	for _, n := range d.Nodes {
		if n.Kind != xdoc.Element {
			continue
		}
		v, ok := fnAt(n)
		if !ok {
			c.Skip("argument aborted")
			return
		}
		if (v == lit) == (cmp.Op == "=") {
			want = append(want, n)
		}
	}
	if _, good := c.checkSelectSet(fce, src, ctx, want); good && len(want) > 0 {
		c.Nontrivial(fmt.Sprintf("sp|%s|%d", src, c.Index/9))
	}
}
