package mon

import (
	"fmt"

	"verif/internal/xdoc"
	"verif/internal/xgen"
	"verif/internal/xref"
)

// C02 - boolean predicates keep exactly the nodes whose predicate is true.
//
// Oracle: set(Select) == reference denotation on paths whose steps (or the parenthesised
// path) carry boolean predicates; additionally the predicate evaluated ALONE on a
// candidate (Evaluate of boolean(pred) from a fresh compile) must equal the reference
// truth value, so a verdict that depends on earlier candidates shows on either side.

func init() {
	Register(&Monitor{
		ID:         "C02",
		Level:      "exploration",
		Exhaustive: []string{"matrix", "matrix2"},
		Rule: "exhaustive matrix: step-axis::test[pred-axis::test] and its not() form for all 12x12 axis pairs, optionally below //, from every node of every tree shape with <= 4 elements; exhaustive matrix2: //*[ax1::t1/ax2::t2] and *[...] for all 144 axis pairs of a TWO-step predicate path over every tree shape with <= 5 elements (an earlier candidate leaves the predicate's iterators half consumed for the next one); " +
			"plus seeded random paths of 1-3 steps whose steps or whose parenthesised whole carry 1-2 boolean predicates of nesting depth <= 2 (existence on any axis, =/!= and relational tests against literals drawn from the values actually present, not(), and/or with cursor-moving left and context-sensitive right operands, count()/contains()/starts-with()/local-name(), predicates nested in the predicate's own path) on random and wide documents where many candidates share ancestors and siblings. " +
			"Non-trivial: the reference denotation is non-empty AND at least one candidate was rejected by a predicate; distinct by (expression text, document, context).",
		Assume: []string{"reference evaluator internal/xref (XPath 1.0 predicates, conversions, existential comparisons)",
			"count() arguments are restricted to forms whose engine delivery is duplicate-free (known finding KF-2)"},
		MinNontrivial: tierN(8000, 100000),
		Required:      []string{},
		Families: []Family{
			witnessFamily("C02"),
			{Name: "matrix", N: func(string) int { return len(c02Matrix()) }, Run: c02MatrixRun},
			{Name: "matrix2", N: func(string) int { return len(c02Matrix2()) }, Run: c02Matrix2Run},
			{Name: "big", N: bigN("C02"), Run: bigRun("C02")},
			{Name: "rand", N: tierN(150000, 6000000), Run: c02Random},
		},
	})
}

var c02m []xref.Expr

func c02Matrix() []xref.Expr {
	if c02m != nil {
		return c02m
	}
	testsA := func(ax string) []xref.Test {
		if ax == "attribute" {
			return []xref.Test{{Kind: "*"}}
		}
		return []xref.Test{{Kind: "name", Local: "a"}, {Kind: "node"}}
	}
	testsB := func(ax string) []xref.Test {
		if ax == "attribute" {
			return []xref.Test{{Kind: "name", Local: "id"}, {Kind: "*"}}
		}
		return []xref.Test{{Kind: "name", Local: "b"}, {Kind: "*"}, {Kind: "text"}}
	}
	for _, a := range xref.AxisNames {
		for _, b := range xref.AxisNames {
			for _, ta := range testsA(a) {
				for _, tb := range testsB(b) {
					pred := xref.Path{Steps: []*xref.Step{{Axis: b, Test: tb}}}
					for v := 0; v < 3; v++ {
						var p xref.Expr = pred
						if v == 1 {
							p = xref.Call{Name: "not", Args: []xref.Expr{pred}}
						}
						st := &xref.Step{Axis: a, Test: ta, Preds: []xref.Expr{p}}
						if v == 2 {
							// below //: many candidates from many inputs reach the same predicate object
							c02m = append(c02m, xref.Path{Abs: true, Steps: []*xref.Step{xgen.DSlash(), {Axis: "child", Abbrev: "child", Test: xref.Test{Kind: "*"}}, st}})
						} else {
							c02m = append(c02m, xref.Path{Steps: []*xref.Step{st}})
						}
					}
				}
			}
		}
	}
	return c02m
}

func c02MatrixRun(c *Case) {
	p := c02Matrix()[c.Index]
	src := xref.Render(p)
	ce := c.compile(src, func() map[string]interface{} { return map[string]interface{}{} })
	if ce == nil {
		return
	}
	c.recordShape(queryShape(ce))
	docs := shapeDocs(4)
	if c.Tier == "thorough" {
		docs = shapeDocs(5)
	}
	for di, d := range docs {
		for _, ctx := range d.Nodes {
			want, ok, why := refNodeSet(p, xref.NewCtx(ctx))
			if !ok {
				panic("C02 matrix: reference: " + why)
			}
			if _, good := c.checkSelectSet(ce, src, ctx, want); !good {
				return
			}
			if len(want) > 0 {
				c.Nontrivial(fmt.Sprintf("%s|%d|%d", src, di, ctx.Ord))
			}
		}
	}
	c.SampleEvery(101, func() interface{} { return map[string]interface{}{"family": "matrix", "path": src} })
}

// stripPreds returns a copy of e without the predicates of the last step / the outer filter,
// and those predicates.
func lastPreds(e xref.Expr) (base xref.Expr, preds []xref.Expr) {
	switch x := e.(type) {
	case xref.Filter:
		return x.X, x.Preds
	case xref.Path:
		if len(x.Steps) == 0 {
			return nil, nil
		}
		last := x.Steps[len(x.Steps)-1]
		if len(last.Preds) == 0 || last.Seq != nil {
			return nil, nil
		}
		cp := x
		cp.Steps = append([]*xref.Step(nil), x.Steps...)
		ls := *last
		ls.Preds = nil
		if ls.Abbrev == "." || ls.Abbrev == ".." {
			ls.Abbrev = ""
		}
		cp.Steps[len(cp.Steps)-1] = &ls
		return cp, last.Preds
	}
	return nil, nil
}

func c02Random(c *Case) {
	g := c.G()
	dg := c.GShared("doc", int64(c.Index/6))
	var d *xdoc.Doc
	if (c.Index/6)%8 == 5 {
		d = dg.DeepTree()
	} else if (c.Index/6)%8 == 6 {
		d = dg.NameLikeTree(xgen.Names)
	} else if dg.Chance(0.3) {
		d = dg.WideTree(4, 5)
	} else {
		o := xgen.DefaultTree()
		if dg.Chance(0.3) {
			o.TextVals, o.AttrVals = xgen.ExoticTextVals, xgen.ExoticAttrVals
		}
		d = dg.Tree(o)
	}
	ctx := d.Nodes[g.Intn(len(d.Nodes))]
	if g.Chance(0.3) {
		ctx = d.Root
	}
	env := &xgen.Env{Doc: d, Ctx: ctx, Names: namesIn(d)}
	e := g.PredPath(1+g.Intn(2), env)
	if c.expensive(e, d) {
		return
	}
	src := xref.Render(e)
	det := func() map[string]interface{} { return docDetail(d, ctx) }
	want, ok, why := refNodeSet(e, xref.NewCtx(ctx))
	if !ok {
		c.Skip("out-of-fragment: " + why)
		return
	}
	ce := c.compile(src, det)
	if ce == nil {
		return
	}
	c.recordShape(queryShape(ce))
	if _, good := c.checkSelectSet(ce, src, ctx, want); !good {
		return
	}
	// non-trivial: something kept and something rejected
	base, preds := lastPreds(e)
	if base != nil {
		cands, ok2, _ := refNodeSet(base, xref.NewCtx(ctx))
		if ok2 && len(want) > 0 && len(cands) > len(want) {
			c.Nontrivial(fmt.Sprintf("%s|%d|%d", src, c.Index/6, ctx.Ord))
		}
		// the predicate evaluated alone on a candidate, through Evaluate of a fresh compile
		if ok2 && len(cands) > 0 && len(preds) == 1 {
			n := cands[g.Intn(len(cands))]
			if _, isNum := preds[0].(xref.Num); !isNum {
				be := xref.Call{Name: "boolean", Args: []xref.Expr{preds[0]}}
				// position()/last() free by construction of BoolPred, so the context alone decides
				wv, oof := xref.SafeEval(be, xref.NewCtx(n))
				if oof == "" {
					bsrc := xref.Render(be)
					if bce := c.compile(bsrc, det); bce != nil {
						got := c.RunEvaluate(bce, n)
						if !sameValue(got, wv) {
							dd := docDetail(d, n)
							dd["expr"] = bsrc
							dd["in_path"] = src
							dd["expected"] = fmt.Sprint(wv)
							dd["observed"] = got.String()
							c.Violation("PREDICATE-ALONE", dd)
						}
					}
				}
			}
		}
	} else if len(want) > 0 {
		c.Nontrivial(fmt.Sprintf("%s|%d|%d", src, c.Index/6, ctx.Ord))
	}
	c.SampleEvery(4001, func() interface{} {
		return map[string]interface{}{"family": "rand", "expr": src, "ctx": ctx.Label(), "doc": d.XML(), "selected": xdoc.Labels(want)}
	})
}

var c02m2 []xref.Expr

// c02Matrix2: two-step predicate paths over all axis pairs; the outer step makes many candidates reach the same predicate.
func c02Matrix2() []xref.Expr {
	if c02m2 != nil {
		return c02m2
	}
	tests := func(ax string) []xref.Test {
		if ax == "attribute" {
			return []xref.Test{{Kind: "*"}}
		}
		return []xref.Test{{Kind: "name", Local: "a"}, {Kind: "name", Local: "b"}, {Kind: "*"}}
	}
	for _, a1 := range xref.AxisNames {
		for _, a2 := range xref.AxisNames {
			for _, t1 := range tests(a1) {
				for _, t2 := range tests(a2) {
					pred := xref.Path{Steps: []*xref.Step{{Axis: a1, Test: t1}, {Axis: a2, Test: t2}}}
					c02m2 = append(c02m2, xref.Path{Abs: true, Steps: []*xref.Step{xgen.DSlash(), {Axis: "child", Abbrev: "child", Test: xref.Test{Kind: "*"}, Preds: []xref.Expr{pred}}}})
				}
			}
		}
	}
	return c02m2
}

func c02Matrix2Run(c *Case) {
	p := c02Matrix2()[c.Index]
	src := xref.Render(p)
	ce := c.compile(src, func() map[string]interface{} { return map[string]interface{}{} })
	if ce == nil {
		return
	}
	c.recordShape(queryShape(ce))
	for di, d := range shapeDocs(5) {
		want, ok, why := refNodeSet(p, xref.NewCtx(d.Root))
		if !ok {
			panic("C02 matrix2: reference: " + why)
		}
		if _, good := c.checkSelectSet(ce, src, d.Root, want); !good {
			return
		}
		if len(want) > 0 {
			c.Nontrivial(fmt.Sprintf("%s|%d", src, di))
		}
	}
	c.SampleEvery(101, func() interface{} {
		return map[string]interface{}{"family": "matrix2", "path": src, "documents": len(shapeDocs(5))}
	})
}
