package mon

import (
	"fmt"
	"strings"
	"sync"

	"github.com/antchfx/xpath"

	"verif/internal/xdoc"
	"verif/internal/xref"
)

// Scale families ("big"): the constructs of C02, C03, C07, C08, C09, C12 and C13 on documents whose
// sibling lists, attribute lists, nesting depth and string-values are far beyond what the other
// families use (300 and 1100 in every dimension: past 255/256 and past 1023/1024). A position kept
// in a narrow integer, an accumulator that loses precision, a walk or a comparison that gives up
// after N nodes, a cache keyed by a truncated position - all of these are invisible on documents
// with a dozen siblings. The oracle is the same reference evaluator; the expression lists are
// generated (not drawn), so every run covers all of them.

type bigCase struct {
	src  string
	ctx  string // "root", "list", "item", "attr", "mid", "bottom"
	mode string // "value": Evaluate vs reference; "seq": Select sequence in document order + count(); "abs": from ctx and from the root
}

var bigNs = []int{1, 2, 9, 10, 11, 99, 100, 101, 127, 128, 129, 255, 256, 257, 299, 300, 301, 511, 512, 513, 1000, 1023, 1024, 1025, 1099, 1100, 1101}

func bigCtx(d *xdoc.Doc, name string) *xdoc.Node {
	r := d.Root.Children[0]
	list, attrs, deep := r.Children[0], r.Children[1], r.Children[2]
	switch name {
	case "root":
		return d.Root
	case "list":
		return list
	case "item":
		return list.Children[len(list.Children)*2/3]
	case "attr":
		return attrs.Attrs[len(attrs.Attrs)*3/4]
	case "mid", "bottom":
		n, depth := deep, 0
		for len(n.Children) > 0 && n.Children[0].Kind == xdoc.Element {
			n = n.Children[0]
			depth++
		}
		if name == "bottom" {
			return n.Children[0] // the text node
		}
		for i := 0; i < depth/10; i++ {
			n = n.Parent
		}
		return n
	}
	panic("bigCtx " + name)
}

var (
	bigListMu sync.Mutex
	bigLists  = map[string][]bigCase{}
)

func bigList(prop string) []bigCase {
	bigListMu.Lock()
	defer bigListMu.Unlock()
	if l, ok := bigLists[prop]; ok {
		return l
	}
	var l []bigCase
	add := func(mode, ctx string, srcs ...string) {
		for _, s := range srcs {
			l = append(l, bigCase{src: s, ctx: ctx, mode: mode})
		}
	}
	f := fmt.Sprintf
	switch prop {
	case "C02":
		for _, n := range bigNs {
			add("value", "root", f("/r/list/item[@n = %d]", n), f("/r/list/item[@n > %d]", n), f("//item[@n = %d or @n = %d]", n, n+1), f("//item[@n >= %d and @n < %d]", n, n+3),
				f("/r/list/item[count(following-sibling::item) = %d]", n), f("//n[count(ancestor::n) = %d]", n), f("/r/attrs[@a%d]", n), f("/r/attrs/@*[name() = 'a%d']", n),
				f("//*[@n = %d]", n), f("/r/texts/w[. = 'w%d ']", n), f("/r/texts/w[contains(., '%d')]", n), f("/r/list/item[not(@n != %d)]", n))
			add("value", "list", f("item[@n = %d]", n), f("item[@n < %d][@k = 3]", n))
		}
		for k := 0; k <= 7; k++ {
			add("value", "root", f("/r/list/item[@k = %d]", k), f("/r/list/item[@k = %d][sub]", k), f("/r/list/item[following-sibling::item[1]/@k = %d]", k))
		}
		add("value", "root", "/r/list/item[sub]", "/r/list/item[not(sub)]", "/r/list/item[sub = 'v']", "/r/list/item[@n mod 256 = 0]", "/r/list/item[not(following-sibling::item)]",
			"/r/list/item[preceding-sibling::item[sub]]", "/r/list/item[following-sibling::item[@k = 0]]", "//n[not(n)]", "//n[n/n/n/n]", "//n[text()]", "//n[ancestor::n[not(ancestor::n)]]",
			"/r/attrs/@*[. = 1]", "/r/attrs/@*[. != 1]", "/r/*[@a1100]", "/r/*[@a300]", "/r/list/node()[self::text()]", "/r/list/item[@n = @k]", "/r/list/item[@n > 1000 or @k = 0]",
			"//n[. = 'bottom']", "//*[not(*)][not(@*)]", "/r/texts/w[string-length(.) > 5]", "/r/texts/w[starts-with(., 'w10')]", "/r/list/item[sub][not(@k = 1)]")
	case "C03":
		bases := []string{"/r/list/item", "/r/list/*", "/r/list/node()", "/r/list/text()", "/r/texts/w", "/r/deep//n", "//item/sub"}
		for _, n := range bigNs {
			for bi, b := range bases {
				add("seq", "root", f("%s[%d]", b, n), f("%s[position() = %d]", b, n), f("%s[last() - %d]", b, n), f("%s[position() = last() - %d]", b, n))
				if bi < 5 {
					add("seq", "root", f("%s[position() > %d]", b, n), f("%s[position() < %d]", b, n), f("%s[position() >= %d]", b, n), f("%s[position() != %d]", b, n))
				}
			}
			add("seq", "root", f("(/r/list/item)[%d]", n), f("(//item)[%d]", n), f("(/r/list/item/@n)[%d]", n), f("(//n)[%d]", n), f("(/r/attrs/@*)[%d]", n), f("(//w)[%d]", n), f("(/r/list/item)[%d]/@n", n),
				f("/r/list/item[%d]/@n", n), f("/r/list/item[%d]/sub[2]", n), f("/r/list/item[position() > %d][@k = 3]", n), f("/r/list/item[position() <= %d]/sub[1]", n))
			add("seq", "list", f("item[%d]", n), f("item[last() - %d]/@k", n), f("node()[%d]", n))
		}
		for _, b := range bases[:5] {
			add("seq", "root", b+"[last()]", b+"[position() = last()]", b+"[last() = position()]", b+"[last() > position()]", b+"[last() - 1 = position()]", b+"[position() != last()]", b+"[position() < last()]", b+"[position() > last() - 3]", b+"[last()][@k = 1]", b+"[last() - 1][sub]")
		}
		add("seq", "root", "/r/list/item[position() > 256][@k = 3]", "/r/deep//n[1]", "//n/n[1]/text()", "/r/*[4]/w[last()]", "/r/list/item[last()]/sub[last()]")
	case "C07":
		for _, n := range bigNs {
			add("value", "root", f("/r/list/item/@n = %d", n), f("/r/list/item/@n = %d.5", n), f("/r/list/item/@n > %d", n), f("/r/list/item/@n >= %d", n), f("/r/list/item/@n != %d", n), f("%d < /r/list/item/@n", n),
				f("/r/list/item/@n = '%d'", n), f("/r/texts/w = 'w%d '", n), f("/r/texts/w = 'w%d'", n), f("not(/r/list/item/@n = %d)", n), f("/r/list/item[%d]/@n = /r/list/item/@k", n),
				f("/r/list/item/@n = /r/list/item[%d]/@n", n), f("count(/r/list/item[@n = %d]) = 1", n), f("/r/list/item[position() > %d]/@n < %d", n, n+2), f("//n[count(ancestor::n) = %d] = 'bottom'", n))
		}
		add("value", "root", "/r/list/item/@n < 1", "/r/list/item/@k = 6", "/r/list/item/@k = 7", "/r/list/item/@k > 6", "/r/list/item/@n = /r/list/item/@k", "/r/list/item/@n = /r/attrs/@*",
			"/r/list/item[position() > 1]/@n = /r/attrs/@*", "/r/list/item[position() > 1]/@n != /r/attrs/@*", "/r/attrs/@* != /r/attrs/@*", "/r/attrs/@* = /r/attrs/@*", "/r/attrs/@* > 0", "/r/attrs/@* > 1",
			"//n = 'bottom'", "//n != 'bottom'", "/r/deep = 'bottom'", "/r/list/item/sub = 'v'", "/r/list/item/sub != 'v'", "/r/list/item/sub = ''", "not(/r/list/item/@n = 0)",
			"/r/list/item/@n = 1100 and /r/list/item/@n = 1", "/r/list/item/@n = 1101 or /r/list/item/@n = 300", "/r/texts/w = /r/texts/w[1100]", "/r/texts/w = /r/texts/w[300]", "/r/texts/w != /r/texts/w[1]", "/r/texts/w < 0", "/r/list/item/@n = true()",
			"/r/list/item[@n > 1100] = false()", "/r/list/item/@n > /r/list/item/@n", "/r/list/item/@k > /r/list/item/@k", "/r/list/item[@k = 6]/@k >= /r/list/item/@n", "/r/list/item/@n <= /r/list/item[@k = 0]/@k")
	case "C08":
		for _, n := range bigNs {
			add("value", "root", f("sum(/r/list/item[@n > %d]/@n)", n), f("count(/r/list/item[position() <= %d])", n), f("sum(/r/list/item[position() < %d]/@n) mod %d", n, n), f("sum(/r/list/item/@n) div %d", n),
				f("count(/r/list/item[@n mod %d = 0])", n), f("number(/r/list/item[%d]/@n) * %d", n, n), f("sum(/r/list/item[position() <= %d]/@k) - %d", n, n), f("floor(sum(/r/list/item/@n) div %d)", n),
				f("floor(sum(/r/list/item[position() <= %d]/@n) div 7 + 0.5)", n), f("count(//n[count(ancestor::n) < %d])", n))
		}
		add("value", "root", "sum(/r/list/item/@n)", "sum(/r/list/item/@k)", "count(/r/list/item)", "count(/r/list/node())", "count(/r/attrs/@*)", "sum(/r/attrs/@*)", "count(//n)", "count(//node())", "count(//@*)",
			"sum(/r/list/item/@n) div count(/r/list/item)", "sum(/r/list/item/@n) mod 256", "count(/r/list/item) * count(/r/attrs/@*)", "string-length(/r/deep)", "number(/r/list/item[last()]/@n)",
			"sum(//item/@n) - sum(/r/list/item/@n)", "count(//sub) + count(//item)", "sum(/r/list/item/@n) * sum(/r/list/item/@n)", "sum(/r/list/item/@n) * 0.1", "-sum(/r/list/item/@n)",
			"count(/r/texts/w) - count(/r/list/item)", "string-length(/r/texts)", "ceiling(sum(/r/list/item/@n) div 1101)", "sum(/r/list/item/@n) = 605550", "count(/r/list/item | /r/texts/w)", "sum(/r/list/item/@n | /r/list/item/@k)")
		add("value", "list", "count(item)", "sum(item/@n)", "count(item/@*)", "count(node())", "sum(item/@k) div count(item)")
	case "C09":
		for _, n := range bigNs {
			add("value", "root", f("substring(/r/texts, %d, 7)", n), f("substring(/r/texts, %d)", n*4), f("substring-before(/r/texts, 'w%d ')", n), f("substring-after(/r/texts, 'w%d ')", n), f("contains(/r/texts, 'w%d w%d')", n, n+1),
				f("string(/r/list/item[%d]/@n)", n), f("string-length(substring-before(/r/texts, '%d'))", n), f("concat(/r/texts/w[%d], '|', /r/list/item[%d]/@n, '|', /r/texts/w[last()])", n, n), f("starts-with(/r/texts/w[%d], 'w%d')", n, n),
				f("translate(/r/texts/w[%d], '0123456789', 'abcdefghij')", n), f("normalize-space(/r/texts/w[%d])", n), f("string-length(/r/texts/w[%d])", n))
		}
		add("value", "root", "string(/r/texts)", "string-length(/r/texts)", "normalize-space(/r/texts)", "string-length(normalize-space(/r/texts))", "translate(/r/texts, ' w', '_')", "translate(/r/texts, '0123456789', '')",
			"string(/r/list)", "string-length(/r/list)", "concat(/r/list, /r/deep)", "string(/r/deep)", "string(/r)", "string-length(/r)", "string(/)", "string-length(concat(/r/texts, /r/texts))", "contains(/r, 'bottomw1 ')",
			"substring-after(/r, 'bottom') = string(/r/texts)", "starts-with(/r/texts, 'w1 w2 ')", "ends-with(/r/texts, 'w1100 ')", "ends-with(/r/texts, 'w300 ')", "string(//n[not(n)])", "lower-case(/r/texts) = string(/r/texts)",
			"string(/r/attrs/@a1100)", "string((/r/attrs/@*)[300])", "local-name((/r/attrs/@*)[300])", "local-name((/r/attrs/@*)[257])", "name(/r/list/*[last()])", "substring(/r/texts, string-length(/r/texts) - 5)", "string(/r/texts/w[last()])")
	case "C12":
		add("seq", "root", "/r/list/item", "/r/list/*", "/r/list/node()", "/r/list/item/sub", "/r/list/item/@n", "/r/list/item/@*", "/r/attrs/@*", "/r/texts/w/text()", "//n", "//sub", "//item", "//w", "//text()",
			"/r/*/*", "/r/*/@*", "/r/list/item[@k = 3]", "/r/list/item[position() > 2]", "/r/list/item[sub]/sub[2]", "/r/*", "/r/list/text()", "/r/texts/w", "/r/list/item[@n > 255]", "/r/list/item[@n > 1023]/@k",
			"/r/texts/*/node()", "/r/list/item/sub/text()", "/r/attrs/@*[. = 1]", "/r/*/*/@n", "/r/*/*/*", "/r/list/item[position() > 255]", "/r/list/item[last()]", "/r/list/item[position() < last()]")
		add("seq", "list", "item", "*", "node()", "item/@n", "item/sub", "text()", "item[@k = 0]/@n", "*/*", "item/@*", "self::node()/item", ".", "./item", "item[position() > 1000]")
		add("seq", "item", "@*", ".", "self::item/@n", "self::*")
	case "C13":
		abs := []string{"/r/list/item", "/r/list/item/@n", "//sub", "//n", "/r/attrs/@*", "/", "/r", "/r/list/item[@k = 3]", "/r/list/item[sub]/sub", "//w/text()", "/r/texts/w[contains(., '77')]", "//n[not(n)]",
			"/descendant::item", "/r/deep/descendant::n/text()", "//item | //w", "/r/list/item[not(sub)]/@k", "//@a257", "//item[@n = 257]", "/r/*", "//*[@n > 1023]"}
		for _, ctx := range []string{"list", "item", "attr", "mid", "bottom"} {
			add("abs", ctx, abs...)
		}
	}
	bigLists[prop] = l
	return l
}

func bigN(prop string) func(string) int {
	return func(string) int { return 2 * len(bigList(prop)) }
}

// bigRun is the `big` family of property prop.
func bigRun(prop string) func(*Case) {
	return func(c *Case) {
		list := bigList(prop)
		bc := list[c.Index/2]
		fan := 300
		if c.Index%2 == 1 {
			fan = 1100
		}
		if fan > 300 && strings.Contains(bc.src, "//n[") && strings.Contains(bc.src, "ancestor::") {
			// the engine identifies every ancestor it delivers by hashing its path from the root: an ancestor walk
			// from each of n nested elements costs O(n^3) navigator operations - legitimate, but far beyond the
			// bounded workload at n = 1100 (observed: 9.9 M operations at n = 300)
			c.Skip("estimated engine cost beyond the bounded workload (ancestor walks from every level of the 1100-deep chain)")
			return
		}
		d := bigDoc(fan)
		ctx := bigCtx(d, bc.ctx)
		ast := mustParse(bc.src)
		docName := fmt.Sprintf("xgen.BigTree(%d): /r/list (%d item[@n,@k], some with sub children), /r/attrs (%d attributes a1..), /r/deep (%d nested n), /r/texts (%d w elements)", fan, fan, fan, fan, fan)
		detail := func() map[string]interface{} {
			return map[string]interface{}{"doc": docName, "expr": bc.src, "ctx": ctx.Label(), "ctx_ord": ctx.Ord}
		}
		cut := func(s string) string {
			if len(s) > 500 {
				return s[:400] + fmt.Sprintf(" ...(%d bytes)... ", len(s)) + s[len(s)-60:]
			}
			return s
		}
		ce := c.compile(bc.src, detail)
		if ce == nil {
			return
		}
		c.Count("big:" + bc.mode)
		switch bc.mode {
		case "value":
			want, oof := xref.SafeEval(ast, xref.NewCtx(ctx))
			if oof != "" {
				panic("big " + prop + ": reference: " + bc.src + ": " + oof)
			}
			got := c.RunEvaluate(ce, ctx)
			if !sameValue(got, want) {
				dd := detail()
				dd["expected"], dd["observed"] = cut(fmtValue(want)), cut(got.String())
				c.Violation("BIG-DOCUMENT", dd)
				return
			}
			switch w := want.(type) {
			case xref.NodeSet:
				if len(w) > 0 {
					c.Nontrivial(fmt.Sprintf("big|%d|%s", fan, bc.src))
				}
			default:
				c.Nontrivial(fmt.Sprintf("big|%d|%s", fan, bc.src))
			}
		case "seq":
			want, ok, why := refNodeSet(ast, xref.NewCtx(ctx))
			if !ok {
				panic("big " + prop + ": reference: " + bc.src + ": " + why)
			}
			got := c.RunSelect(ce, ctx)
			if got.Aborted() || got.Foreign > 0 || !SameNodes(got.Nodes, want) {
				dd := detail()
				dd["expected_sequence"], dd["observed_sequence"] = cut(xdoc.Labels(want)), cut(xdoc.Labels(got.Nodes))
				dd["expected_count"], dd["observed_count"] = len(want), len(got.Nodes)
				dd["abort"] = fmt.Sprint(got.Panic.String(), " budget=", got.Budget)
				c.Violation("BIG-DOCUMENT-SEQUENCE", dd)
				return
			}
			if prop == "C12" && !strings.Contains(bc.src, "|") {
				if cnt, err := safeCompile("count(" + bc.src + ")"); err == nil {
					if r := c.RunEvaluate(cnt, ctx); !sameValue(r, float64(len(want))) {
						dd := detail()
						dd["expected"], dd["observed"] = fmt.Sprintf("count(...) = %d, the length of the delivered sequence", len(want)), r.String()
						c.Violation("BIG-DOCUMENT-COUNT", dd)
						return
					}
				}
			}
			if len(want) > 0 {
				c.Nontrivial(fmt.Sprintf("big|%d|%s|%s", fan, bc.src, bc.ctx))
			}
		case "abs":
			want, ok, why := refNodeSet(ast, xref.NewCtx(d.Root))
			if !ok {
				panic("big " + prop + ": reference: " + bc.src + ": " + why)
			}
			for _, from := range []*xdoc.Node{ctx, d.Root} {
				got := c.RunSelect(ce, from)
				gs, _ := AsSet(got.Nodes)
				if got.Aborted() || got.Foreign > 0 || !SameNodes(gs, want) {
					dd := detail()
					dd["start_node"] = from.Label()
					dd["expected_count"], dd["observed_count"] = len(want), len(gs)
					dd["expected"], dd["observed"] = cut(xdoc.Labels(want)), cut(xdoc.Labels(gs))
					dd["abort"] = fmt.Sprint(got.Panic.String(), " budget=", got.Budget)
					c.Violation("ABSOLUTE-PATH-DEPENDS-ON-START-NODE", dd)
					return
				}
			}
			if len(want) > 0 {
				c.Nontrivial(fmt.Sprintf("big|%d|%s|%s", fan, bc.src, bc.ctx))
			}
		}
		c.SampleEvery(97, func() interface{} {
			return map[string]interface{}{"family": "big", "fan": fan, "expr": bc.src, "ctx": bc.ctx, "mode": bc.mode}
		})
	}
}

// ---- C14 at scale: 1100 namespaces, 1100 map entries ----

var (
	nsBigOnce sync.Once
	nsBigDoc  *xdoc.Doc
	nsBigMap  map[string]string
)

const nsBigFan = 1100

// nsBig: <r> with 1100 children <pI:e pI:a="I" id="I"> in namespace urn:n:I, followed by 20 children
// <qI:e> bound to the SAME URIs under other prefixes. The map binds xI -> urn:n:I (prefixes the document never
// uses) and pI -> urn:n:(I+1) (the document's own prefixes, bound differently): matching is by URI only.
func nsBig() (*xdoc.Doc, map[string]string) {
	nsBigOnce.Do(func() {
		d := xdoc.NewDoc()
		d.HasNS = true
		r := d.Root.AddElem("", "r", "")
		uri := func(i int) string { return fmt.Sprintf("urn:n:%d", i) }
		for i := 1; i <= nsBigFan; i++ {
			e := r.AddElem(fmt.Sprintf("p%d", i), "e", uri(i))
			e.AddAttr(fmt.Sprintf("p%d", i), "a", uri(i), fmt.Sprint(i))
			e.AddAttr("", "id", "", fmt.Sprint(i))
		}
		for i := 1; i <= nsBigFan; i += 55 {
			r.AddElem(fmt.Sprintf("q%d", i), "e", uri(i)).AddAttr("", "twin", "", fmt.Sprint(i))
		}
		// names of 300 bytes (prefix and local part), sharing all but their last character
		long := strings.Repeat("n", 299)
		for _, last := range []string{"a", "b"} {
			e := r.AddElem(long+last, long+last, uri(1))
			e.AddAttr(long+last, long+last, uri(1), last)
			e.AddAttr("", long+last, "", "u"+last)
		}
		nsBigDoc = d.Finish()
		nsBigMap = map[string]string{}
		for i := 1; i <= nsBigFan; i++ {
			nsBigMap[fmt.Sprintf("x%d", i)] = uri(i)
			nsBigMap[fmt.Sprintf("p%d", i)] = uri(i%nsBigFan + 1)
		}
	})
	return nsBigDoc, nsBigMap
}

func c14BigList() []string {
	var l []string
	f := fmt.Sprintf
	for _, n := range bigNs {
		if n > nsBigFan-1 {
			continue
		}
		l = append(l, f("/r/x%d:e", n), f("count(/r/x%d:e)", n), f("/r/*/@x%d:a", n), f("//x%d:e/@id", n), f("/r/p%d:e", n), f("/r/p%d:e/@id", n), f("name(/r/x%d:e)", n), f("namespace-uri(/r/*[%d])", n),
			f("local-name(/r/*[%d]/@*[1])", n), f("name(/r/*[%d]/@x%d:a)", n, n), f("count(//@x%d:a)", n), f("/r/x%d:e | /r/x%d:e", n, n+1), f("/r/*[self::x%d:e]/@id", n), f("count(/r/*[@p%d:a])", n),
			f("/r/x%d:e[@twin]", n), f("string(/r/x%d:e[last()]/@twin)", n), f("count(/r/x%d:e/following-sibling::x%d:e)", n, n), f("boolean(/r/x%d:e/@x%d:a)", n, n+1))
	}
	long := strings.Repeat("n", 299)
	l = append(l, "/r/x1:"+long+"a", "/r/x1:"+long+"b/@x1:"+long+"b", "count(/r/x1:"+long+"a | /r/x1:"+long+"b)", "name(/r/*[last()])", "local-name((/r/*[last() - 1]/@*)[2])", "string(/r/x1:"+long+"a/@"+long+"a)",
		"count(/r/*[starts-with(local-name(), 'nnn')])", "/r/*[local-name() = '"+long+"b']/@*", "count(//@"+long+"a)", "count(//@x1:"+long+"b)")
	l = append(l, "count(/r/*)", "count(/r/x1:e | /r/x56:e | /r/x1046:e)", "count(//@id)", "name(/r/*[last()])", "namespace-uri(/r/*[last()])", "count(/r/*[namespace-uri() = 'urn:n:56'])", "count(/r/*[local-name() = 'e'])")
	return l
}

func c14Big(c *Case) {
	d, m := nsBig()
	src := c14BigList()[c.Index]
	ast := mustParse(src)
	rc := xref.NewCtx(d.Root)
	rc.NS, rc.UseNS = m, true
	want, oof := xref.SafeEval(ast, rc)
	if oof != "" {
		panic("C14 big: reference: " + src + ": " + oof)
	}
	det := func() map[string]interface{} {
		return map[string]interface{}{"doc": "<r> with 1100 children <pI:e pI:a='I' id='I'> in namespace urn:n:I and 20 twins <qI:e twin='I'> in the same namespaces", "expr": src,
			"map": "1100 entries xI -> urn:n:I and 1100 entries pI -> urn:n:(I mod 1100 + 1)"}
	}
	ce, err := safeCompileNS(src, m)
	if err != nil || ce == nil {
		dd := det()
		dd["error"] = fmt.Sprint(err)
		c.Violation("BOUND-PREFIXES-REJECTED", dd)
		return
	}
	got := c.RunEvaluate(ce, d.Root)
	if !sameValue(got, want) {
		dd := det()
		dd["expected"], dd["observed"] = fmtValue(want), got.String()
		c.Violation("NAME-TEST-BY-URI", dd)
		return
	}
	c.Count("big:namespaces")
	c.Nontrivial("nsbig|" + src)
	c.SampleEvery(37, func() interface{} {
		return map[string]interface{}{"family": "big", "expr": src, "namespaces": nsBigFan, "map_entries": len(m)}
	})
}

// ---- C14: one text under several maps, in one process ----

// c14MapOrder: the SAME expression text is compiled under maps that bind its prefixes differently (swapped,
// merged, to a third URI, not at all), in several orders and twice within one process, also through Compile and
// MustCompile in between; every compilation must follow the map it was given (nothing about an earlier
// compilation of the same text may be remembered).
var c14MoDoc = func() *xdoc.Doc {
	d := xdoc.NewDoc()
	d.HasNS = true
	r := d.Root.AddElem("", "r", "")
	for i, u := range []string{"urn:a", "urn:b", "urn:c", ""} {
		for j, pre := range []string{"p", "q", "z"} {
			if u == "" {
				pre = ""
			}
			e := r.AddElem(pre, "x", u)
			e.AddAttr("", "id", "", fmt.Sprint(i*3+j))
			if u != "" {
				e.AddAttr(pre, "a", u, "v")
			}
			e.AddElem(pre, "y", u)
		}
	}
	return d.Finish()
}()

var c14MoTexts = []string{"//p:x", "//q:x", "/r/p:x/@id", "//p:x/q:y", "//p:x/p:y", "//@p:a", "//q:x/@q:a", "count(//p:x)", "//p:x | //q:x", "//*[self::p:x]/@id", "//p:x[@p:a]", "//p:x[q:y]", "name(//p:x)", "/r/p:x[2]", "//x", "//p:y/.."}
var c14MoMaps = []map[string]string{
	{"p": "urn:a", "q": "urn:b"}, {"p": "urn:b", "q": "urn:a"}, {"p": "urn:a", "q": "urn:a"}, {"p": "urn:c", "q": "urn:b"}, {"p": "urn:none", "q": "urn:b"}, {"p": "urn:b", "q": "urn:c", "z": "urn:a"},
}

func c14MapOrder(c *Case) {
	g := c.G()
	src := c14MoTexts[c.Index%len(c14MoTexts)]
	ast := mustParse(src)
	d := c14MoDoc
	for pass := 0; pass < 2; pass++ {
		for _, mi := range g.R.Perm(len(c14MoMaps)) {
			m := c14MoMaps[mi]
			rc := xref.NewCtx(d.Root)
			rc.NS, rc.UseNS = m, true
			want, oof := xref.SafeEval(ast, rc)
			if oof != "" {
				panic("C14 maporder: reference: " + src + ": " + oof)
			}
			if strings.Contains(src, "//x") {
				// an unprefixed test under a map: statement silent - only compiled, to sit between the others
				safeCompileNS(src, m)
				continue
			}
			ce, err := safeCompileNS(src, m)
			if err != nil || ce == nil {
				c.Violation("BOUND-PREFIXES-REJECTED", map[string]interface{}{"expr": src, "map": fmt.Sprint(m), "error": fmt.Sprint(err)})
				return
			}
			got := c.RunEvaluate(ce, d.Root)
			c.Count("maporder:evaluations")
			if !sameValue(got, want) {
				c.Violation("NAME-TEST-BY-URI", map[string]interface{}{"expr": src, "map": fmt.Sprint(m), "pass": pass, "doc": d.XML(), "expected": fmtValue(want), "observed": got.String(),
					"note": "the same text was compiled under other maps before in this process"})
				return
			}
			if g.Chance(0.3) {
				safeCompile(src) // without a map the text compiles too (prefixes compared literally): must not disturb the next one
				xpath.MustCompile(src)
			}
		}
	}
	// the map is an input of CompileWithNS, not of the compiled expression: the caller may re-bind or delete a prefix
	// in the SAME map object afterwards (to compile the next expression) without changing what the first one selects
	if !strings.Contains(src, "//x") {
		live := map[string]string{"p": "urn:a", "q": "urn:b"}
		rc := xref.NewCtx(d.Root)
		rc.NS, rc.UseNS = map[string]string{"p": "urn:a", "q": "urn:b"}, true
		want, _ := xref.SafeEval(ast, rc)
		ce, err := safeCompileNS(src, live)
		if err != nil || ce == nil {
			c.Violation("BOUND-PREFIXES-REJECTED", map[string]interface{}{"expr": src, "map": fmt.Sprint(live), "error": fmt.Sprint(err)})
			return
		}
		for step, mutate := range []func(){func() {}, func() { live["p"] = "urn:b" }, func() { live["q"] = "urn:c"; safeCompileNS(src, live) }, func() { delete(live, "p") }, func() { delete(live, "q"); live["z"] = "urn:a" }} {
			mutate()
			got := c.RunEvaluate(ce, d.Root)
			c.Count("maporder:map-modified-after-compile")
			if !sameValue(got, want) {
				c.Violation("NAME-TEST-BY-URI", map[string]interface{}{"expr": src, "map_when_compiled": "map[p:urn:a q:urn:b]", "map_now": fmt.Sprint(live), "step": step, "doc": d.XML(), "expected": fmtValue(want), "observed": got.String(),
					"note": "the caller changed the map object after CompileWithNS had returned"})
				return
			}
		}
	}
	c.Nontrivial(fmt.Sprintf("maporder|%s|%d", src, c.Index))
	c.SampleEvery(11, func() interface{} {
		return map[string]interface{}{"family": "maporder", "expr": src, "maps": len(c14MoMaps)}
	})
}
