package mon

import (
	"fmt"

	"verif/internal/xdoc"
)

// Canary: a fixed list of calls whose results are recorded the first time they are made in a worker
// process and re-made periodically. Whatever happened in between (failed compilations, aborted
// evaluations, concurrent rounds), the same call must return what it returned when run first and alone:
// Compile and evaluation are functions of their inputs. A difference is state leaking between calls
// (pooled parsers, caches, scratch buffers).
var canaryExprs = []string{
	"/r/a[2]", "//b[. > 5]", "count(//b) + 1", "concat('a', //b, 'c')", "normalize-space(' x  y ')", "//a | //b", "(//b)[last()]",
	"matches(//b, '^[0-9]+$')", "replace('abc', 'b(c)', '$1$1')", "string-join(//b, ',')", "a/(b, c)/text()", "-(-(1))", "((((1))))",
	"translate('abc', 'ab', 'x')", "//a[b[1] = 10][position() = 1]/@id", "substring('hello', 2, 3)", "sum(//b[number(.) = number(.)])",
}

var canaryDoc = xdoc.MustParseXML(`<r><a id="1"><b>10</b><b>7</b><c>t</c></a><a id="2"><b>x</b></a></r>`, false)

var canaryFirst map[string]string

func canaryDigest(src string) string {
	ce, err := safeCompile(src)
	if err != nil {
		return "COMPILE-ERROR: " + err.Error()
	}
	return opDigest(ce, canaryDoc.Nodes[1], "evaluate", 0, nil) + " / " + opDigest(ce, canaryDoc.Root, "select", 0, nil)
}

// Canary re-makes the canary calls (every `every` cases) and compares with the first results of this process.
func (c *Case) Canary(every int) bool {
	if canaryFirst == nil {
		canaryFirst = map[string]string{}
		for _, s := range canaryExprs {
			canaryFirst[s] = canaryDigest(s)
		}
		return true
	}
	if every > 1 && c.Index%every != 0 {
		return true
	}
	for _, s := range canaryExprs {
		c.Rep.Counters["canary_calls"]++
		if got := canaryDigest(s); got != canaryFirst[s] {
			c.Violation("RESULT-DEPENDS-ON-EARLIER-CALLS", map[string]interface{}{"expr": s, "first_result_in_this_process": canaryFirst[s], "result_now": got,
				"doc": canaryDoc.XML(), "note": fmt.Sprintf("case %s:%d", c.Family, c.Index)})
			return false
		}
	}
	return true
}
