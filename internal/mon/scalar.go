package mon

import (
	"fmt"
	"math"
	"sort"
	"strings"

	"verif/internal/xdoc"
	"verif/internal/xgen"
	"verif/internal/xref"
)

// scalarCheck evaluates e with the engine (Evaluate) and with the reference and compares exactly.
// It returns the reference value (nil when skipped).
func (c *Case) scalarCheck(e xref.Expr, ctx *xdoc.Node, kindOnAbort string) (interface{}, bool) {
	if c.expensive(e, ctx.Doc) {
		return nil, true
	}
	want, oof := xref.SafeEval(e, xref.NewCtx(ctx))
	if oof != "" {
		c.Skip("out-of-fragment: " + oof)
		return nil, true
	}
	src := xref.Render(e)
	det := func() map[string]interface{} { return docDetail(ctx.Doc, ctx) }
	ce := c.compile(src, det)
	if ce == nil {
		return nil, false
	}
	got := c.RunEvaluate(ce, ctx)
	if !sameValue(got, want) {
		dd := det()
		dd["expr"] = src
		dd["expected"] = fmtValue(want)
		dd["observed"] = got.String()
		kind := "VALUE"
		if got.Aborted() {
			kind = kindOnAbort
		}
		c.Violation(kind, dd)
		return want, false
	}
	return want, true
}

func sortedFloats(m map[float64]bool) []float64 {
	var out []float64
	for f := range m {
		out = append(out, f)
	}
	sort.Float64s(out)
	return out
}

func sortedStrings(m map[string]bool) []string {
	var out []string
	for s := range m {
		out = append(out, s)
	}
	sort.Strings(out)
	return out
}

func fmtValue(v interface{}) string {
	switch x := v.(type) {
	case bool:
		return fmt.Sprintf("bool(%v)", x)
	case float64:
		return fmt.Sprintf("number(%v)", x)
	case string:
		return fmt.Sprintf("string(%q)", x)
	case xref.NodeSet:
		return "nodeset" + xdoc.Labels(x)
	}
	return fmt.Sprint(v)
}

// valueDoc: documents whose text and attribute values range over numeric, non-numeric,
// empty, whitespace-padded and duplicate strings, with 0, 1 and many nodes per name.
func valueDoc(g *xgen.G) *xdoc.Doc {
	o := xgen.DefaultTree()
	o.MaxDepth = 3
	o.MaxFan = 4
	o.NoComments = g.Chance(0.5)
	return g.Tree(o)
}

func pickCtx(g *xgen.G, d *xdoc.Doc) *xdoc.Node {
	// prefer elements with children so that relative flat paths denote something
	if g.Chance(0.7) {
		var cands []*xdoc.Node
		for _, n := range d.Nodes {
			if n.Kind == xdoc.Element && len(n.Children) >= 2 {
				cands = append(cands, n)
			}
		}
		if len(cands) > 0 {
			return cands[g.Intn(len(cands))]
		}
	}
	return d.Nodes[g.Intn(len(d.Nodes))]
}

// ---------------------------------------------------------------------------
// C07

func init() {
	Register(&Monitor{
		ID:    "C07",
		Level: "exploration",
		Rule: "exhaustive operand-type matrix within the stated combinations: number x number and node-set x number (both orders) under all 6 operators; string x string, node-set x string (both orders), node-set x node-set under = and !=; and/or over all 4x4 operand type pairs incl. short-circuit (the right operand aborts if evaluated); not() of boolean/node-set; boolean() of every type incl. NaN, +-0, ''. " +
			"Node-set operands are flat paths over documents with numeric, non-numeric, empty, padded and duplicate values and 0, 1, many nodes; literals compared with a node-set are drawn from the values actually present in its denotation (first, middle, last node, no node, +-1), so that first-only/last-only/all-nodes implementations differ from the existential one; and/or operands use cursor-moving left and context-sensitive right operands. Every expression is checked as top-level Evaluate and inside a predicate of a Select. " +
			"Non-trivial: a node-set operand has >= 2 nodes, or a boolean operator saw both operands; distinct by (expression text, document, context).",
		Assume:        []string{"reference evaluator internal/xref (existential comparison semantics, XPath number lexing, short-circuit)"},
		MinNontrivial: tierN(6000, 80000),
		Required:      []string{"cell:nodeset-number", "cell:number-nodeset", "cell:nodeset-string", "cell:string-nodeset", "cell:nodeset-nodeset", "cell:number-number", "cell:string-string", "shortcircuit"},
		Families: []Family{
			witnessFamily("C07"),
			{Name: "matrix", N: tierN(1200, 12000), Run: c07Matrix},
			{Name: "boolops", N: tierN(1000, 10000), Run: c07BoolOps},
			{Name: "big", N: bigN("C07"), Run: bigRun("C07")},
			{Name: "rand", N: tierN(150000, 6000000), Run: c07Random},
		},
	})
}

var c07FlatPaths = []string{"b", "*", "*/@id", "*/*", "@*", "text()", "*/text()", "a", "c", "*/@k", "//b", "//c", "*/b", "self::*/a", "//@id", "a/@x"}

func mustParse(s string) xref.Expr {
	e, err := xref.Parse(s)
	if err != nil {
		panic(fmt.Sprintf("harness expression %q: %v", s, err))
	}
	return e
}

// bothWays checks e as a top-level Evaluate and as a predicate of self::node() in a Select.
func (c *Case) c07Both(e xref.Expr, ctx *xdoc.Node) bool {
	want, ok := c.scalarCheck(e, ctx, "COMPARISON-ABORTED")
	if !ok || want == nil {
		return ok
	}
	b, isBool := want.(bool)
	if !isBool {
		return true
	}
	pe := xref.Path{Steps: []*xref.Step{{Axis: "self", Test: xref.Test{Kind: "node"}, Preds: []xref.Expr{e}}}}
	src := xref.Render(pe)
	ce := c.compile(src, func() map[string]interface{} { return docDetail(ctx.Doc, ctx) })
	if ce == nil {
		return false
	}
	var wantNS xref.NodeSet
	if b {
		wantNS = xref.NodeSet{ctx}
	}
	_, good := c.checkSelectSet(ce, src, ctx, wantNS)
	return good
}

func c07Matrix(c *Case) {
	g := c.G()
	d := valueDoc(c.GShared("vdoc", int64(c.Index/4)))
	if (c.Index/4)%3 == 2 {
		// numerals padded with Unicode-only white space are NOT numbers for XPath
		dg := c.GShared("xdoc", int64(c.Index/4))
		o := xgen.DefaultTree()
		o.MaxDepth, o.MaxFan = 3, 4
		o.TextVals, o.AttrVals = xgen.ExoticTextVals, xgen.ExoticAttrVals
		d = dg.Tree(o)
	}
	ctx := pickCtx(g, d)
	num := func(f float64) xref.Expr {
		if f < 0 {
			return xref.Neg{X: xref.Num{Lex: xref.NumToString(-f)}}
		}
		return xref.Num{Lex: xref.NumToString(f)}
	}
	for _, ps := range c07FlatPaths {
		p := mustParse(ps)
		ns, ok, _ := refNodeSet(p, xref.NewCtx(ctx))
		if !ok {
			continue
		}
		// literal pools drawn from the denotation
		strs := map[string]bool{"zz": true, "": true}
		nums := map[float64]bool{0: true, 10: true}
		if len(ns) > 0 {
			for _, n := range []*xdoc.Node{ns[0], ns[len(ns)/2], ns[len(ns)-1]} {
				v := n.StringValue()
				strs[v] = true
				for _, alt := range altSpellings(v) {
					strs[alt] = true // equal as numbers, or up to case / surrounding blanks - but different strings
				}
				f := xref.StrToNumber(v)
				if !math.IsNaN(f) && math.Abs(f) < 1e6 {
					nums[f], nums[f+1], nums[f-1] = true, true, true
				}
			}
		}
		for _, op := range []string{"=", "!=", "<", "<=", ">", ">="} {
			for _, f := range sortedFloats(nums) {
				if !c.c07Both(xref.Bin{Op: op, L: p, R: num(f)}, ctx) || !c.c07Both(xref.Bin{Op: op, L: num(f), R: p}, ctx) {
					return
				}
				c.Count("cell:nodeset-number")
				c.Count("cell:number-nodeset")
				if len(ns) >= 2 {
					c.Nontrivial(fmt.Sprintf("m|%s|%s|%v|%d|%d", ps, op, f, c.Index/4, ctx.Ord))
				}
			}
			if op == "=" || op == "!=" {
				for _, s := range sortedStrings(strs) {
					if len(s) > 20 {
						continue
					}
					if !c.c07Both(xref.Bin{Op: op, L: p, R: xref.Str{V: s}}, ctx) || !c.c07Both(xref.Bin{Op: op, L: xref.Str{V: s}, R: p}, ctx) {
						return
					}
					c.Count("cell:nodeset-string")
					c.Count("cell:string-nodeset")
					if len(ns) >= 2 {
						c.Nontrivial(fmt.Sprintf("m|%s|%s|%q|%d|%d", ps, op, s, c.Index/4, ctx.Ord))
					}
				}
				q := mustParse(c07FlatPaths[g.Intn(len(c07FlatPaths))])
				if !c.c07Both(xref.Bin{Op: op, L: p, R: q}, ctx) {
					return
				}
				c.Count("cell:nodeset-nodeset")
			}
		}
	}
	// number x number and string x string over fixed grids
	vals := []xref.Expr{num(0), num(1), num(2.5), num(-1), mustParse("0 div 0"), mustParse("1 div 0"), mustParse("-1 div 0"), mustParse("number('x')"), mustParse("-0")}
	// comparisons are exact on IEEE 754 doubles: neighbouring doubles are different numbers
	near := [][2]string{{"0.1 + 0.2", "0.3"}, {"4503599627370497", "4503599627370496"}, {"0.30000000000000004", "0.3"}, {"1 div 3 * 3", "1"}, {"1.0000000000000002", "1"},
		{"9007199254740993", "9007199254740992"}, {"100 * 1.1", "110"},
		// a number literal denotes the double nearest to its decimal spelling - the same one number('...') yields
		{"1.14", "number('1.14')"}, {"4.56", "number('4.56')"}, {"1.36", "136 div 100"}, {"2.28", "number('2.28')"}, {"3.47", "number('3.47')"}, {"29.99", "number('29.99')"}, {"1.15", "number('1.15')"},
		{"0.1234567890123456789", "number('0.1234567890123456789')"}, {"3.14159265358979323846", "number('3.14159265358979323846')"}, {"12345678901234567890", "number('12345678901234567890')"},
		{"0.00000000000000000000001", "number('0.00000000000000000000001')"}, {"123456789.123456789", "number('123456789.123456789')"}, {".1234567890123456789", "number('.1234567890123456789')"}, {"number('0.30000000000000004')", "0.3"}, {"0.1 * 3", "0.3"}, {"1e0", "1"}, {"123456789.12345678", "123456789.12345679"}}
	for _, pr := range near {
		if pr[0] == "1e0" {
			continue
		}
		for _, op := range []string{"=", "!=", "<", "<=", ">", ">="} {
			if !c.c07Both(mustParse(pr[0]+" "+op+" "+pr[1]), ctx) || !c.c07Both(mustParse(pr[1]+" "+op+" "+pr[0]), ctx) {
				return
			}
			c.Count("cell:number-number-adjacent-doubles")
		}
	}
	strv := []string{"", "a", "b", "10", "10.0", " 10", "A"}
	for _, op := range []string{"=", "!=", "<", "<=", ">", ">="} {
		a, b := vals[g.Intn(len(vals))], vals[g.Intn(len(vals))]
		if !c.c07Both(xref.Bin{Op: op, L: a, R: b}, ctx) {
			return
		}
		c.Count("cell:number-number")
		if op == "=" || op == "!=" {
			s, t := strv[g.Intn(len(strv))], strv[g.Intn(len(strv))]
			if !c.c07Both(xref.Bin{Op: op, L: xref.Str{V: s}, R: xref.Str{V: t}}, ctx) {
				return
			}
			c.Count("cell:string-string")
		}
	}
	c.SampleEvery(97, func() interface{} {
		return map[string]interface{}{"family": "matrix", "doc": d.XML(), "ctx": ctx.Label(), "paths": c07FlatPaths}
	})
}

// c07BoolOps: and/or over all 4x4 operand type pairs with known truth values, short-circuit
// observation, not() and boolean() of every type.
func c07BoolOps(c *Case) {
	g := c.G()
	d := valueDoc(c.GShared("vdoc", int64(c.Index/4)))
	ctx := pickCtx(g, d)
	env := &xgen.Env{Doc: d, Ctx: ctx, Names: namesIn(d)}
	typed := func(t int, truth bool) xref.Expr {
		// t: 0 boolean, 1 number, 2 string, 3 node-set
		switch t {
		case 0:
			if truth {
				return xref.Call{Name: "true"}
			}
			return xref.Call{Name: "false"}
		case 1:
			if truth {
				return []xref.Expr{xref.Num{Lex: "1"}, xref.Num{Lex: "0.5"}, xref.Neg{X: xref.Num{Lex: "2"}}, mustParse("1 div 0")}[g.Intn(4)]
			}
			return []xref.Expr{xref.Num{Lex: "0"}, mustParse("0 div 0"), xref.Neg{X: xref.Num{Lex: "0"}}, mustParse("number('abc')")}[g.Intn(4)]
		case 2:
			if truth {
				return xref.Str{V: g.Pick("a", "0", "false", " ")}
			}
			return xref.Str{V: ""}
		default:
			if truth {
				return []xref.Expr{mustParse("."), mustParse("/"), mustParse("self::node()"), mustParse("/*")}[g.Intn(4)]
			}
			return []xref.Expr{mustParse("nosuch"), mustParse("@nosuch"), mustParse("self::nosuch"), mustParse("/nosuch//x")}[g.Intn(4)]
		}
	}
	for tl := 0; tl < 4; tl++ {
		for tr := 0; tr < 4; tr++ {
			for _, op := range []string{"and", "or"} {
				for bits := 0; bits < 4; bits++ {
					l, r := typed(tl, bits&1 != 0), typed(tr, bits&2 != 0)
					if !c.c07Both(xref.Bin{Op: op, L: l, R: r}, ctx) {
						return
					}
					c.Count(fmt.Sprintf("boolop:%s:%d:%d", op, tl, tr))
				}
			}
		}
		// short-circuit: the right operand must not be evaluated
		if !c.c07Both(xref.Bin{Op: "or", L: typed(tl, true), R: xgen.Aborter()}, ctx) || !c.c07Both(xref.Bin{Op: "and", L: typed(tl, false), R: xgen.Aborter()}, ctx) {
			return
		}
		c.Count("shortcircuit")
		for _, truth := range []bool{true, false} {
			if !c.c07Both(xref.Call{Name: "boolean", Args: []xref.Expr{typed(tl, truth)}}, ctx) {
				return
			}
			if tl == 0 || tl == 3 {
				if !c.c07Both(xref.Call{Name: "not", Args: []xref.Expr{typed(tl, truth)}}, ctx) {
					return
				}
			}
		}
	}
	// left to right: the left operand is evaluated first, so an aborting LEFT operand aborts
	// (nothing is asserted about that); a cursor-moving left operand must not disturb the right one
	for i := 0; i < 6; i++ {
		l, r := g.CursorMover(env.Names), g.ContextSensitive(env)
		if g.Chance(0.3) {
			l = xref.Call{Name: "not", Args: []xref.Expr{l}}
		}
		if !c.c07Both(xref.Bin{Op: g.Pick("and", "or"), L: l, R: r}, ctx) {
			return
		}
	}
	c.Nontrivial(fmt.Sprintf("b|%d|%d", c.Index/4, ctx.Ord))
	c.SampleEvery(97, func() interface{} {
		return map[string]interface{}{"family": "boolops", "doc": d.XML(), "ctx": ctx.Label(), "example": xref.Render(xref.Bin{Op: "or", L: typed(3, true), R: xgen.Aborter()})}
	})
}

func c07Random(c *Case) {
	g := c.G()
	d := valueDoc(c.GShared("rdoc", int64(c.Index/8)))
	ctx := pickCtx(g, d)
	env := &xgen.Env{Doc: d, Ctx: ctx, Names: namesIn(d)}
	e := g.CmpExpr(1+g.Intn(2), env)
	if !c.c07Both(e, ctx) {
		return
	}
	if c.Index%4 == 0 && !c.scalarCheckMany(e, []*xdoc.Node{ctx, d.Nodes[g.Intn(len(d.Nodes))], d.Nodes[g.Intn(len(d.Nodes))], ctx}) {
		return // (one compiled expression at several context nodes)
	}
	if c.Index%4 == 1 {
		// the comparison as the predicate of a step with many candidates: one instance of it, evaluated per candidate
		var pred xref.Expr = e
		if v, oof := xref.SafeEval(e, xref.NewCtx(ctx)); oof == "" {
			if _, isBool := v.(bool); !isBool {
				pred = xref.Call{Name: "boolean", Args: []xref.Expr{e}}
			}
		}
		pe := xref.Path{Abs: true, Steps: []*xref.Step{xgen.DSlash(), {Axis: "child", Abbrev: "child", Test: xref.Test{Kind: g.Pick("*", "node")}, Preds: []xref.Expr{pred}}}}
		if !c.expensive(pe, d) {
			if wantNS, okNS, _ := refNodeSet(pe, xref.NewCtx(d.Root)); okNS {
				pce := c.compile(xref.Render(pe), func() map[string]interface{} { return docDetail(d, d.Root) })
				if pce == nil {
					return
				}
				if _, good := c.checkSelectSet(pce, xref.Render(pe), d.Root, wantNS); !good {
					return
				}
				c.Count("comparison-per-candidate")
			}
		}
	}
	c.recordShapeOf(e)
	nt := false
	xref.Walk(e, func(x xref.Expr) {
		if p, ok := x.(xref.Path); ok {
			if ns, ok2, _ := refNodeSet(p, xref.NewCtx(ctx)); ok2 && len(ns) >= 2 {
				nt = true
			}
		}
	})
	if nt {
		c.Nontrivial(fmt.Sprintf("r|%s|%d|%d", xref.Render(e), c.Index/8, ctx.Ord))
	}
	c.SampleEvery(4001, func() interface{} {
		return map[string]interface{}{"family": "rand", "expr": xref.Render(e), "ctx": ctx.Label(), "doc": d.XML()}
	})
}

// recordShapeOf compiles e again just to record iterator types (coverage evidence).
func (c *Case) recordShapeOf(e xref.Expr) {
	if ce := c.compile(xref.Render(e), func() map[string]interface{} { return map[string]interface{}{} }); ce != nil {
		c.recordShape(queryShape(ce))
	}
}

// altSpellings returns strings that a sloppy comparison would take for v: other spellings of the same number,
// v in another case, v with blanks around it.
func altSpellings(v string) []string {
	if len(v) > 12 {
		return nil
	}
	out := []string{v + " ", " " + v, strings.ToUpper(v), strings.ToLower(v)}
	if f := xref.StrToNumber(v); !math.IsNaN(f) && !math.IsInf(f, 0) {
		t := strings.TrimSpace(v)
		out = append(out, "0"+t, t+".0", "+"+t, xref.NumToString(f), xref.NumToString(f)+".00")
		if !strings.Contains(t, ".") {
			out = append(out, t+".")
		}
	}
	return out
}

// scalarCheckMany compiles e ONCE and evaluates the compiled expression at each context in turn (a value
// remembered from an earlier context node inside the compiled expression shows at the later ones).
func (c *Case) scalarCheckMany(e xref.Expr, ctxs []*xdoc.Node) bool {
	src := xref.Render(e)
	if c.expensive(e, ctxs[0].Doc) {
		return true
	}
	ce := c.compile(src, func() map[string]interface{} { return docDetail(ctxs[0].Doc, ctxs[0]) })
	if ce == nil {
		return false
	}
	for i, ctx := range ctxs {
		want, oof := xref.SafeEval(e, xref.NewCtx(ctx))
		if oof != "" {
			continue
		}
		got := c.RunEvaluate(ce, ctx)
		c.Count("one-compiled-expression-many-contexts")
		if !sameValue(got, want) {
			dd := docDetail(ctx.Doc, ctx)
			dd["expr"], dd["expected"], dd["observed"] = src, fmtValue(want), got.String()
			var earlier []string
			for _, p := range ctxs[:i] {
				earlier = append(earlier, p.Label())
			}
			dd["evaluated_before_at"] = earlier
			c.Violation("VALUE", dd)
			return false
		}
	}
	return true
}
