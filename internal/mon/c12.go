package mon

import (
	"fmt"

	"github.com/antchfx/xpath"

	"verif/internal/xdoc"
	"verif/internal/xgen"
	"verif/internal/xref"
)

// C12 - flat paths: document order, no duplicates; the iterator protocol is well-behaved.
//
// (1) flat paths: the delivery SEQUENCE equals the reference node-set in document order.
// (2) for every node-set expression: Evaluate's iterator delivers the same sequence as Select;
//     count(E) equals the length of that sequence; reverse(E) delivers it reversed; MoveNext
//     keeps returning false once it returned false; Current() designates the node just reported;
//     a navigator copied from Current() is not moved by later MoveNext calls.

func init() {
	Register(&Monitor{
		ID:    "C12",
		Level: "exploration",
		Rule: "flat paths (child/attribute/self steps from one context, predicates of C02/C03 allowed; or one predicate-free //name-style descendant step) on wide and deep documents (fan-out <= 12, depth <= 8) from all kinds of contexts: sequence compared with the reference node-set in document order; " +
			"protocol relations on node-set expressions of every generator (free paths, predicate paths, positional paths, unions): Evaluate-vs-Select sequence, count(), reverse(), 1..5 extra MoveNext calls, Current() identity, independence of copied navigators. " +
			"Non-trivial: the sequence has >= 2 nodes; distinct by (expression text, document, context).",
		Assume:        []string{"reference evaluator internal/xref for the flat-path order; the protocol relations are engine-vs-engine"},
		MinNontrivial: tierN(8000, 100000),
		Required:      []string{"relation:count", "relation:reverse", "relation:evaluate", "relation:extra_movenext", "relation:drained_iterator_after_second_select"},
		Families: []Family{
			witnessFamily("C12"),
			{Name: "flat", N: tierN(150000, 6000000), Run: c12Flat},
			{Name: "big", N: bigN("C12"), Run: bigRun("C12")},
			{Name: "protocol", N: tierN(100000, 5000000), Run: c12Protocol},
		},
	})
}

func c12Doc(g *xgen.G) *xdoc.Doc {
	switch g.Intn(7) {
	case 6:
		return g.NSTree(false) // siblings that share a local name under different prefixes
	case 5:
		return g.NameLikeTree(xgen.Names)
	case 4:
		return g.DeepTree()
	case 0:
		return g.WideTree(3, 12)
	case 1:
		return g.WideTree(8, 3)
	case 2:
		return g.WideTree(5, 6)
	default:
		return g.Tree(xgen.DefaultTree())
	}
}

// flatPathWithPreds: a flat path, steps optionally carrying boolean (C02) or, on child steps
// as first predicate, positional (C03) predicates.
func flatPathWithPreds(g *xgen.G, env *xgen.Env) xref.Path {
	p := g.FlatPath(env.Names)
	if len(p.Steps) == 2 && p.Steps[0].Abbrev == "//" {
		return p // single predicate-free descendant step
	}
	for _, s := range p.Steps {
		if s.Abbrev == "//" {
			continue
		}
		switch g.Intn(5) {
		case 0:
			if s.Axis == "child" {
				s.Preds = append(s.Preds, g.PosPred(4))
			}
		case 1:
			s.Preds = append(s.Preds, g.BoolPred(1, env))
		}
	}
	return p
}

func c12Flat(c *Case) {
	g := c.G()
	if c.Index%10 == 9 {
		c12FlatPrefixed(c)
		return
	}
	if c.Index%10 == 8 {
		c12NoMoveTo(c)
		return
	}
	d := c12Doc(c.GShared("doc", int64(c.Index/10)))
	ctx := pickCtx(g, d)
	if g.Chance(0.2) {
		ctx = d.Root
	}
	env := &xgen.Env{Doc: d, Ctx: ctx, Names: namesIn(d)}
	p := flatPathWithPreds(g, env)
	if c.expensive(p, d) {
		return
	}
	src := xref.Render(p)
	want, ok, why := refNodeSet(p, xref.NewCtx(ctx))
	if !ok {
		c.Skip("out-of-fragment: " + why)
		return
	}
	ce := c.compile(src, func() map[string]interface{} { return docDetail(d, ctx) })
	if ce == nil {
		return
	}
	c.recordShape(queryShape(ce))
	got, good := c.checkSelectSet(ce, src, ctx, want)
	if !good {
		return
	}
	if !SameNodes(got.Nodes, want) {
		dd := docDetail(d, ctx)
		dd["expr"] = src
		dd["expected_sequence"] = xdoc.Labels(want)
		dd["observed_sequence"] = xdoc.Labels(got.Nodes)
		if len(got.Nodes) != len(want) {
			c.Violation("DUPLICATE-IN-FLAT-PATH", dd)
		} else {
			c.Violation("NOT-DOCUMENT-ORDER", dd)
		}
		return
	}
	if len(want) >= 2 {
		c.Nontrivial(fmt.Sprintf("%s|%d|%d", src, c.Index/10, ctx.Ord))
	}
	c.SampleEvery(4001, func() interface{} {
		return map[string]interface{}{"family": "flat", "expr": src, "ctx": ctx.Label(), "sequence": xdoc.Labels(want), "doc_nodes": len(d.Nodes)}
	})
}

// anyNodeSetExpr draws a node-set expression from every generator of the harness.
func anyNodeSetExpr(g *xgen.G, env *xgen.Env) xref.Expr {
	switch g.Intn(12) {
	case 9, 10:
		// steps with stacked predicates (boolean then positional and the other way round)
		return g.StackedPath(env)
	case 11:
		return g.FilterStartPath(env)
	case 7:
		// reverse() is a node-set expression too: count(reverse(x)), reverse(reverse(x)), (reverse(x))
		return xref.Call{Name: "reverse", Args: []xref.Expr{g.FreePath(1+g.Intn(2), env.Names)}}
	case 8:
		return xref.Group{X: xref.Call{Name: "reverse", Args: []xref.Expr{g.FlatPath(env.Names)}}}
	case 0, 1:
		return g.FreePath(1+g.Intn(3), env.Names)
	case 2:
		return g.PredPath(1, env)
	case 3:
		return g.PosPath(env, 4)
	case 4:
		return xref.Bin{Op: "|", L: g.FreePath(1+g.Intn(2), env.Names), R: g.FreePath(1+g.Intn(2), env.Names)}
	case 5:
		return flatPathWithPreds(g, env)
	default:
		return xref.Path{Start: xref.Group{X: g.FreePath(1+g.Intn(2), env.Names)}, Steps: []*xref.Step{g.FreeStep(env.Names)}}
	}
}

// iterate drives a NodeIterator by hand, recording the protocol observations.
type protoObs struct {
	seq        []*xdoc.Node
	panic      *PanicInfo
	budget     bool
	extraTrue  int  // MoveNext returned true again after having returned false
	movedCopy  bool // a navigator copied from Current() was moved by a later MoveNext
	currentBad bool // Current() is nil or not a harness navigator after a true MoveNext
}

func (c *Case) iterate(it *xpath.NodeIterator, d *xdoc.Doc, rec *xdoc.Rec, extra int) (o protoObs) {
	defer func() {
		if x := recover(); x != nil {
			o.panic, o.budget = classify(x)
		}
		c.account(rec.Ops)
	}()
	var copies []xpath.NodeNavigator
	var at []*xdoc.Node
	for it.MoveNext() {
		cur := it.Current()
		n := xdoc.NodeOf(cur)
		if n == nil || n.Doc != d {
			o.currentBad = true
			return
		}
		o.seq = append(o.seq, n)
		if len(copies) < 8 {
			copies = append(copies, cur.Copy())
			at = append(at, n)
		}
	}
	for i := 0; i < extra; i++ {
		if it.MoveNext() {
			o.extraTrue++
		}
	}
	for i, cp := range copies {
		if xdoc.NodeOf(cp) != at[i] {
			o.movedCopy = true
		}
	}
	return
}

func c12Protocol(c *Case) {
	g := c.G()
	d := c12Doc(c.GShared("pdoc", int64(c.Index/10)))
	ctx := d.Nodes[g.Intn(len(d.Nodes))]
	if g.Chance(0.3) {
		ctx = d.Root
	}
	env := &xgen.Env{Doc: d, Ctx: ctx, Names: namesIn(d)}
	e := anyNodeSetExpr(g, env)
	if c.expensive(e, d) {
		return
	}
	src := xref.Render(e)
	det := func() map[string]interface{} { return docDetail(d, ctx) }
	ce := c.compile(src, det)
	if ce == nil {
		return
	}
	c.recordShape(queryShape(ce))
	c.Logf("expr %s ctx %s doc nodes %d", src, ctx.Label(), len(d.Nodes))
	bad := func(kind string, extra map[string]interface{}) {
		dd := det()
		dd["expr"] = src
		for k, v := range extra {
			dd[k] = v
		}
		c.Violation(kind, dd)
	}
	// Select, driven by hand with extra MoveNext calls
	extra := 1 + g.Intn(5)
	rec := &xdoc.Rec{Limit: OpLimit}
	it1 := ce.Select(xdoc.NewNav(ctx, rec))
	sel := c.iterate(it1, d, rec, extra)
	c.Count("relation:extra_movenext")
	if sel.panic != nil || sel.budget {
		// aborts are the business of C07/C15; the relations below need a completed iteration
		c.Skip("select aborted")
		return
	}
	if sel.currentBad {
		bad("CURRENT-NOT-ON-REPORTED-NODE", nil)
		return
	}
	if sel.extraTrue > 0 {
		bad("MOVENEXT-TRUE-AFTER-FALSE", map[string]interface{}{"extra_calls": extra, "returned_true": sel.extraTrue, "sequence": xdoc.Labels(sel.seq)})
		return
	}
	if sel.movedCopy {
		bad("COPIED-NAVIGATOR-MOVED", map[string]interface{}{"sequence": xdoc.Labels(sel.seq)})
		return
	}
	// Evaluate returns an iterator producing the same sequence
	rec2 := &xdoc.Rec{Limit: OpLimit}
	var ev protoObs
	evKind := ""
	func() {
		defer func() {
			if x := recover(); x != nil {
				ev.panic, ev.budget = classify(x)
			}
		}()
		v := ce.Evaluate(xdoc.NewNav(ctx, rec2))
		it, ok := v.(*xpath.NodeIterator)
		if !ok {
			evKind = fmt.Sprintf("%T", v)
			return
		}
		ev = c.iterate(it, d, rec2, extra)
	}()
	c.Count("relation:evaluate")
	if evKind != "" || ev.panic != nil || ev.budget || ev.extraTrue > 0 || !SameNodes(ev.seq, sel.seq) {
		bad("EVALUATE-SEQUENCE-DIFFERS", map[string]interface{}{"select_sequence": xdoc.Labels(sel.seq), "evaluate_sequence": xdoc.Labels(ev.seq),
			"evaluate_type": evKind, "evaluate_panic": ev.panic.String(), "evaluate_extra_true": ev.extraTrue})
		return
	}
	// a finished iterator stays finished whatever happens to its Expr afterwards: Select the same Expr again
	// (iterator 2 created, not yet advanced), poll the drained iterator 1, then drive iterator 2 - which must
	// deliver the whole sequence, none of it having gone to iterator 1
	if c.Index%2 == 1 {
		rec3 := &xdoc.Rec{Limit: OpLimit}
		var second protoObs
		late := 0
		func() {
			defer func() {
				if x := recover(); x != nil {
					second.panic, second.budget = classify(x)
				}
			}()
			it2 := ce.Select(xdoc.NewNav(ctx, rec3))
			for i := 0; i < extra; i++ {
				if it1.MoveNext() {
					late++
				}
			}
			second = c.iterate(it2, d, rec3, extra)
			for i := 0; i < extra; i++ {
				if it1.MoveNext() {
					late++
				}
			}
		}()
		c.Count("relation:drained_iterator_after_second_select")
		if late > 0 {
			bad("MOVENEXT-TRUE-AFTER-FALSE", map[string]interface{}{"when": "the drained iterator was polled again after a second Select on the same Expr", "returned_true": late, "sequence": xdoc.Labels(sel.seq)})
			return
		}
		if second.panic != nil || second.budget || second.extraTrue > 0 || second.currentBad || !SameNodes(second.seq, sel.seq) {
			bad("SECOND-SELECT-SEQUENCE-DIFFERS", map[string]interface{}{"select_sequence": xdoc.Labels(sel.seq), "second_select_sequence": xdoc.Labels(second.seq),
				"second_panic": second.panic.String(), "second_extra_true": second.extraTrue})
			return
		}
	}
	// count(E) equals the length of the sequence
	csrc := "count(" + src + ")"
	if cce := c.compile(csrc, det); cce != nil {
		cv := c.RunEvaluate(cce, ctx)
		c.Count("relation:count")
		if cv.Kind != "number" || cv.F != float64(len(sel.seq)) {
			bad("COUNT-DIFFERS-FROM-SEQUENCE-LENGTH", map[string]interface{}{"count_expr": csrc, "count": cv.String(), "sequence": xdoc.Labels(sel.seq)})
			return
		}
		// ... every time the same compiled count(E) is asked (the argument query lives in the function's closure)
		if c.Index%2 == 0 {
			for round := 2; round <= 3; round++ {
				if cv2 := c.RunEvaluate(cce, ctx); cv2.Kind != "number" || cv2.F != float64(len(sel.seq)) {
					bad("COUNT-DIFFERS-FROM-SEQUENCE-LENGTH", map[string]interface{}{"count_expr": csrc, "count": cv2.String(), "evaluation": round, "sequence": xdoc.Labels(sel.seq)})
					return
				}
			}
		}
	}
	// reverse(E) yields the sequence reversed
	rsrc := "reverse(" + src + ")"
	if rce := c.compile(rsrc, det); rce != nil {
		rv := c.RunSelect(rce, ctx)
		c.Count("relation:reverse")
		rev := make([]*xdoc.Node, len(sel.seq))
		for i, n := range sel.seq {
			rev[len(sel.seq)-1-i] = n
		}
		if rv.Aborted() || !SameNodes(rv.Nodes, rev) {
			bad("REVERSE-DIFFERS", map[string]interface{}{"reverse_expr": rsrc, "reverse_sequence": xdoc.Labels(rv.Nodes), "sequence": xdoc.Labels(sel.seq), "abort": rv.Panic.String()})
			return
		}
	}
	if len(sel.seq) >= 2 {
		c.Nontrivial(fmt.Sprintf("%s|%d|%d", src, c.Index/10, ctx.Ord))
	}
	c.SampleEvery(4001, func() interface{} {
		return map[string]interface{}{"family": "protocol", "expr": src, "ctx": ctx.Label(), "sequence": xdoc.Labels(sel.seq), "extra_movenext": extra}
	})
}

// c12FlatPrefixed: the single descendant step and flat paths with PREFIXED name tests (no namespace
// map: matched by prefix) on documents that carry prefixes.
func c12FlatPrefixed(c *Case) {
	g := c.G()
	d := c.GShared("nsdoc", int64(c.Index/40)).NSTree(false)
	elems, _ := docQNames(d)
	if len(elems) == 0 {
		return
	}
	q := elems[g.Intn(len(elems))]
	t := xref.Test{Kind: "name", Prefix: q.prefix, Local: q.local}
	ctx := d.Nodes[g.Intn(len(d.Nodes))]
	var p xref.Path
	switch g.Intn(3) {
	case 0:
		p = xref.Path{Abs: true, Steps: []*xref.Step{xgen.DSlash(), {Axis: "child", Abbrev: "child", Test: t}}}
	case 1:
		p = xref.Path{Steps: []*xref.Step{xgen.SelfDot(), xgen.DSlash(), {Axis: "child", Abbrev: "child", Test: t}}}
		ctx = d.Root
	default:
		p = xref.Path{Steps: []*xref.Step{{Axis: "child", Abbrev: "child", Test: xref.Test{Kind: "*"}}, {Axis: "child", Abbrev: "child", Test: t}}}
	}
	src := xref.Render(p)
	want, ok, _ := refNodeSet(p, xref.NewCtx(ctx))
	if !ok {
		return
	}
	ce := c.compile(src, func() map[string]interface{} { return docDetail(d, ctx) })
	if ce == nil {
		return
	}
	got, good := c.checkSelectSet(ce, src, ctx, want)
	if good && !SameNodes(got.Nodes, want) {
		dd := docDetail(d, ctx)
		dd["expr"], dd["expected_sequence"], dd["observed_sequence"] = src, xdoc.Labels(want), xdoc.Labels(got.Nodes)
		c.Violation("NOT-DOCUMENT-ORDER", dd)
		return
	}
	c.Count("flat:prefixed")
	if len(want) >= 2 {
		c.Nontrivial(fmt.Sprintf("%s|ns%d|%d", src, c.Index/40, ctx.Ord))
	}
}

// c12NoMoveTo: predicate-free child/attribute/self/descendant paths driven through a navigator whose
// MoveTo always returns false: Current() must still designate each reported node.
func c12NoMoveTo(c *Case) {
	g := c.G()
	d := c12Doc(c.GShared("doc", int64(c.Index/10)))
	ctx := pickCtx(g, d)
	names := namesIn(d)
	p := xref.Path{}
	n := 1 + g.Intn(3)
	for i := 0; i < n; i++ {
		ax := g.Pick("child", "child", "descendant", "self", "descendant-or-self")
		if i == n-1 && g.Chance(0.4) {
			ax = "attribute"
		}
		p.Steps = append(p.Steps, &xref.Step{Axis: ax, Test: g.NodeTest(ax, names)})
	}
	if c.expensive(p, d) {
		return
	}
	src := xref.Render(p)
	want, ok, _ := refNodeSet(p, xref.NewCtx(ctx))
	if !ok {
		return
	}
	ce := c.compile(src, func() map[string]interface{} { return docDetail(d, ctx) })
	if ce == nil {
		return
	}
	var res SelResult
	rec := &xdoc.Rec{Limit: OpLimit}
	func() {
		defer func() {
			if x := recover(); x != nil {
				res.Panic, res.Budget = classify(x)
			}
			c.account(rec.Ops)
		}()
		drain(ce.Select(xdoc.NewNavNoMove(ctx, rec)), d, &res)
	}()
	c.Count("navigator:movetofails")
	gs, _ := AsSet(res.Nodes)
	if res.Aborted() || res.Foreign > 0 || !SameNodes(gs, want) {
		dd := docDetail(d, ctx)
		dd["expr"], dd["expected"], dd["observed_sequence"], dd["navigator"] = src, xdoc.Labels(want), xdoc.Labels(res.Nodes), "MoveTo always returns false"
		dd["abort"] = fmt.Sprint(res.Panic.String(), res.Budget)
		c.Violation("CURRENT-NOT-ON-REPORTED-NODE", dd)
		return
	}
	if len(want) >= 2 {
		c.Nontrivial(fmt.Sprintf("nm|%s|%d|%d", src, c.Index/10, ctx.Ord))
	}
}
