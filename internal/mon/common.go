package mon

import (
	"fmt"
	"sync"

	"github.com/antchfx/xpath"

	"verif/internal/xdoc"
	"verif/internal/xgen"
	"verif/internal/xref"
)

var (
	shapeMu    sync.Mutex
	shapeCache = map[int][]*xdoc.Doc{}
)

// shapeDocs memoises the exhaustive shape documents per process.
func shapeDocs(maxElems int) []*xdoc.Doc {
	shapeMu.Lock()
	defer shapeMu.Unlock()
	if d, ok := shapeCache[maxElems]; ok {
		return d
	}
	d := xgen.ShapeDocs(maxElems)
	shapeCache[maxElems] = d
	return d
}

var (
	poolMu    sync.Mutex
	poolCache = map[string][]*xdoc.Doc{}
)

// docPool returns n seeded random documents shared by all cases of a run (memoised per process).
func (c *Case) docPool(key string, n int, mk func(g *xgen.G) *xdoc.Doc) []*xdoc.Doc {
	k := fmt.Sprintf("%s/%s/%d/%d", c.Prop, key, c.Seed, n)
	poolMu.Lock()
	defer poolMu.Unlock()
	if d, ok := poolCache[k]; ok {
		return d
	}
	var docs []*xdoc.Doc
	for i := 0; i < n; i++ {
		docs = append(docs, mk(c.GShared(key, int64(i))))
	}
	poolCache[k] = docs
	return docs
}

// expensive skips a case whose expression is too costly for the op budget on document d (counted as skipped).
func (c *Case) expensive(e xref.Expr, d *xdoc.Doc) bool {
	if xgen.TooExpensive(e, len(d.Nodes)) {
		c.Skip("estimated engine cost beyond the bounded workload (see xgen.CostEstimate)")
		return true
	}
	return false
}

func (c *Case) expensiveText(src string, d *xdoc.Doc) bool {
	if xgen.CostEstimateText(src, len(d.Nodes)) > xgen.MaxCost {
		c.Skip("estimated engine cost beyond the bounded workload (see xgen.CostEstimate)")
		return true
	}
	return false
}

// compile compiles src; a rejection of a text the reference grammar accepts is a violation.
func (c *Case) compile(src string, detail func() map[string]interface{}) (ce *xpath.Expr) {
	defer func() {
		if x := recover(); x != nil {
			d := detail()
			d["expr"] = src
			pi, _ := classify(x)
			d["panic"] = pi.String()
			c.Violation("COMPILE-PANICKED", d)
			ce = nil
		}
	}()
	e, err := xpath.Compile(src)
	if err != nil || e == nil {
		d := detail()
		d["expr"] = src
		d["compile_error"] = fmt.Sprint(err)
		c.Violation("COMPILE-REJECTED", d)
		return nil
	}
	return e
}

func docDetail(d *xdoc.Doc, ctx *xdoc.Node) map[string]interface{} {
	return map[string]interface{}{"doc": d.XML(), "ctx": ctx.Label(), "ctx_ord": ctx.Ord, "nav_ns": d.HasNS}
}

// refNodeSet evaluates e with the reference; ok=false when out of fragment or not a node-set.
func refNodeSet(e xref.Expr, rc *xref.Ctx) (xref.NodeSet, bool, string) {
	v, oof := xref.SafeEval(e, rc)
	if oof != "" {
		return nil, false, oof
	}
	ns, ok := v.(xref.NodeSet)
	if !ok {
		return nil, false, "not a node-set"
	}
	return ns, true, ""
}

// checkSelectSet runs Select(ctx, e) and compares the set of delivered nodes with want.
// It returns the delivery sequence; a mismatch, abort or non-termination is recorded as a violation.
func (c *Case) checkSelectSet(ce *xpath.Expr, src string, ctx *xdoc.Node, want xref.NodeSet) (SelResult, bool) {
	got := c.RunSelect(ce, ctx)
	bad := func(kind string, extra map[string]interface{}) {
		d := docDetail(ctx.Doc, ctx)
		d["expr"] = src
		d["expected"] = xdoc.Labels(want)
		d["observed_sequence"] = xdoc.Labels(got.Nodes)
		for k, v := range extra {
			d[k] = v
		}
		c.Violation(kind, d)
	}
	switch {
	case got.Budget:
		bad("NON-TERMINATION", map[string]interface{}{"ops": got.Ops})
		return got, false
	case got.Panic != nil:
		bad("ABORT", map[string]interface{}{"panic": got.Panic.String()})
		return got, false
	case got.Foreign > 0:
		bad("FOREIGN-NODE", map[string]interface{}{"foreign": got.Foreign})
		return got, false
	}
	gs, _ := AsSet(got.Nodes)
	if !SameNodes(gs, want) {
		bad("SET", map[string]interface{}{"observed_set": xdoc.Labels(gs)})
		return got, false
	}
	return got, true
}

// sig is a shape signature of an expression: axes, test kinds, operators and function names,
// with names and literals abstracted away.
func sig(e xref.Expr) string {
	toks := xref.Tokens(e)
	out := make([]byte, 0, 64)
	for _, t := range toks {
		switch t.K {
		case xref.TNumber:
			out = append(out, 'N')
		case xref.TString:
			out = append(out, 'S')
		case xref.TName:
			switch t.S {
			case "a", "b", "c", "id", "x", "k":
				out = append(out, 'n')
			default:
				out = append(out, t.S...)
			}
		default:
			out = append(out, t.S...)
		}
		out = append(out, ' ')
	}
	return string(out)
}

// queryShape is the iterator-type tree of a compiled expression (verif-tagged hook).
func queryShape(e *xpath.Expr) string { return xpath.VerifQueryShape(e) }

// safeCompile is Compile for monitors whose business is not Compile's totality (that is C06's):
// a panic escaping Compile is treated like a rejection there.
func safeCompile(src string) (e *xpath.Expr, err error) {
	defer func() {
		if x := recover(); x != nil {
			e, err = nil, fmt.Errorf("Compile panicked: %v", x)
		}
	}()
	return xpath.Compile(src)
}

func safeCompileNS(src string, m map[string]string) (e *xpath.Expr, err error) {
	defer func() {
		if x := recover(); x != nil {
			e, err = nil, fmt.Errorf("CompileWithNS panicked: %v", x)
		}
	}()
	return xpath.CompileWithNS(src, m)
}
