package mon

import (
	"encoding/json"
	"fmt"
	"os"
	"path/filepath"
	"sync"

	"github.com/antchfx/xpath"

	"verif/internal/xdoc"
	"verif/internal/xref"
)

// Finding is one entry of /verif/known_findings.json (committed, never written at run time).
//
//	status "known": a genuine defect that is recorded rather than repaired. Its pinned witness is
//	  re-executed by every run; while it still deviates in exactly the recorded way the check prints
//	  KNOWN-FINDING and does not alarm. Any other deviation of the witness is a violation.
//	status "fixed": a defect repaired by a "fix:" commit. The entry suppresses nothing: its witness
//	  is a regression case, and a deviation is reported as a violation.
type Finding struct {
	ID       string  `json:"id"`
	Property string  `json:"property"`
	Status   string  `json:"status"`
	Commit   string  `json:"commit,omitempty"`
	What     string  `json:"what"`
	Witness  Witness `json:"witness"`
	Line     string  `json:"line,omitempty"` // the "fixed: property=<id> <commit> <what failed>" record
}

type Witness struct {
	Kind     string            `json:"kind"` // select | evaluate | reject | accept | twice | type | terminates
	Expr     string            `json:"expr"`
	Doc      string            `json:"doc,omitempty"`
	NavNS    bool              `json:"nav_ns,omitempty"`
	Ctx      int               `json:"ctx"` // document order number of the context node
	NS       map[string]string `json:"ns,omitempty"`
	Seq      bool              `json:"seq,omitempty"`      // select: compare the delivery sequence, not the set
	Observed string            `json:"observed,omitempty"` // known findings: the recorded deviating observation
}

var (
	findingsOnce sync.Once
	findings     []Finding
	findingsErr  error
)

func loadFindings() ([]Finding, error) {
	findingsOnce.Do(func() {
		root := os.Getenv("VERIF_ROOT")
		if root == "" {
			root = "/verif"
		}
		b, err := os.ReadFile(filepath.Join(root, "known_findings.json"))
		if err != nil {
			findingsErr = err
			return
		}
		var f struct {
			Findings []Finding `json:"findings"`
		}
		if err := json.Unmarshal(b, &f); err != nil {
			findingsErr = err
			return
		}
		findings = f.Findings
	})
	return findings, findingsErr
}

func findingsFor(prop string) []Finding {
	all, err := loadFindings()
	if err != nil {
		panic(fmt.Sprintf("known_findings.json: %v", err))
	}
	var out []Finding
	for _, f := range all {
		if f.Property == prop {
			out = append(out, f)
		}
	}
	return out
}

const defaultWitnessDoc = `<r><a id="1"><b>10</b><b>x</b><c><b>30</b></c></a><a><b>40</b><!--cm--></a><a-1><a/></a-1><a/></r>`

// witnessFamily re-executes the pinned witnesses of a property.
func witnessFamily(prop string) Family {
	return Family{
		Name: "witness",
		N:    func(string) int { return len(findingsFor(prop)) },
		Run: func(c *Case) {
			f := findingsFor(prop)[c.Index]
			dev, obs, detail := runWitness(c, f.Witness)
			c.Count("witnesses")
			c.Logf("witness %s status=%s deviates=%v observed=%s", f.ID, f.Status, dev, obs)
			detail["finding"] = f.ID
			detail["what"] = f.What
			detail["observed"] = obs
			switch {
			case !dev:
				if f.Status == "known" {
					c.Count("known_finding_not_reproduced")
				}
			case f.Status == "known" && obs == f.Witness.Observed:
				c.Violation("KNOWN-FINDING", detail)
			case f.Status == "known":
				detail["recorded_observation"] = f.Witness.Observed
				c.Violation("WITNESS-DEVIATES-DIFFERENTLY", detail)
			default:
				detail["fixed_by"] = f.Commit
				c.Violation("REGRESSION", detail)
			}
		},
	}
}

func witnessDoc(w Witness) (*xdoc.Doc, *xdoc.Node) {
	src := w.Doc
	if src == "" {
		src = defaultWitnessDoc
	}
	d := xdoc.MustParseXML(src, w.NavNS)
	if w.Ctx < 0 || w.Ctx >= len(d.Nodes) {
		panic(fmt.Sprintf("witness context %d out of range", w.Ctx))
	}
	return d, d.Nodes[w.Ctx]
}

func compileW(w Witness) (*xpath.Expr, error) {
	if w.NS != nil {
		return xpath.CompileWithNS(w.Expr, w.NS)
	}
	return xpath.Compile(w.Expr)
}

// runWitness executes w and reports whether the engine deviates from what the property demands,
// with a digest of the observation.
func runWitness(c *Case, w Witness) (deviates bool, observed string, detail map[string]interface{}) {
	detail = map[string]interface{}{"expr": w.Expr, "witness_kind": w.Kind}
	switch w.Kind {
	case "none":
		// no pinned input: the defect needs a schedule or an input too large to pin; the entry
		// records the repair and names the workload family that covers it
		return false, "not pinned", detail
	case "reject":
		e, err := compileW(w)
		c.Rep.Evals++
		if err == nil && e != nil {
			return true, "accepted", detail
		}
		return false, "rejected", detail
	case "accept":
		_, err := compileW(w)
		c.Rep.Evals++
		if err != nil {
			return true, "rejected: " + err.Error(), detail
		}
		return false, "accepted", detail
	}
	d, ctx := witnessDoc(w)
	detail["doc"] = d.XML()
	detail["ctx"] = ctx.Label()
	ce, err := compileW(w)
	if err != nil {
		return true, "compile error: " + err.Error(), detail
	}
	rc := xref.NewCtx(ctx)
	if w.NS != nil {
		rc.NS, rc.UseNS = w.NS, d.HasNS
	}
	switch w.Kind {
	case "select":
		ast, perr := xref.Parse(w.Expr)
		if perr != nil {
			panic(fmt.Sprintf("witness %q: reference parser: %v", w.Expr, perr))
		}
		want, ok, why := refNodeSet(ast, rc)
		if !ok {
			panic(fmt.Sprintf("witness %q: reference: %s", w.Expr, why))
		}
		got := c.RunSelect(ce, ctx)
		detail["expected"] = xdoc.Labels(want)
		if got.Aborted() {
			if got.Budget {
				return true, "non-termination", detail
			}
			return true, got.Panic.String(), detail
		}
		if w.Seq {
			return !SameNodes(got.Nodes, want), "seq:" + fmt.Sprint(Ords(got.Nodes)), detail
		}
		gs, _ := AsSet(got.Nodes)
		return !SameNodes(gs, want), "set:" + fmt.Sprint(Ords(gs)), detail
	case "evaluate":
		ast, perr := xref.Parse(w.Expr)
		if perr != nil {
			panic(fmt.Sprintf("witness %q: reference parser: %v", w.Expr, perr))
		}
		wantV, oof := xref.SafeEval(ast, rc)
		if oof != "" {
			panic(fmt.Sprintf("witness %q: reference: %s", w.Expr, oof))
		}
		got := c.RunEvaluate(ce, ctx)
		detail["expected"] = fmt.Sprint(wantV)
		return !sameValue(got, wantV), got.String(), detail
	case "twice":
		first := c.RunEvaluate(ce, ctx)
		second := c.RunEvaluate(ce, ctx)
		fresh, _ := compileW(w)
		ref := c.RunEvaluate(fresh, ctx)
		detail["fresh"] = ref.String()
		return first.String() != ref.String() || second.String() != ref.String(), "first=" + first.String() + " second=" + second.String(), detail
	case "type":
		got := c.RunEvaluate(ce, ctx)
		switch got.Kind {
		case "bool", "number", "string", "nodeset":
			return got.Panic != nil && got.Panic.Runtime, got.String(), detail
		}
		if got.Aborted() {
			return got.Budget || got.Panic.Runtime, got.String(), detail
		}
		return true, "type:" + got.GoType, detail
	case "terminates":
		s := c.RunSelect(ce, ctx)
		e := c.RunEvaluate(ce, ctx)
		bad := s.Budget || e.Budget || (s.Panic != nil && s.Panic.Runtime) || (e.Panic != nil && e.Panic.Runtime)
		obs := "ok"
		if bad {
			obs = fmt.Sprintf("select: budget=%v %s; evaluate: %s", s.Budget, s.Panic.String(), e.String())
		}
		return bad, obs, detail
	}
	panic("unknown witness kind " + w.Kind)
}

// sameValue compares an engine result with a reference value (exact; NaN equals NaN, +0 equals -0; node-sets as sets).
func sameValue(got EvalResult, want interface{}) bool {
	if got.Aborted() {
		return false
	}
	switch w := want.(type) {
	case bool:
		return got.Kind == "bool" && got.B == w
	case float64:
		return got.Kind == "number" && SameNumber(got.F, w)
	case string:
		return got.Kind == "string" && got.S == w
	case xref.NodeSet:
		if got.Kind != "nodeset" {
			return false
		}
		gs, _ := AsSet(got.Nodes)
		return SameNodes(gs, w)
	}
	return false
}
