package mon

import (
	"fmt"

	"github.com/antchfx/xpath"

	"verif/internal/xdoc"
	"verif/internal/xgen"
	"verif/internal/xref"
)

// C01 - predicate-free location paths select exactly the XPath 1.0 node-set.
//
// Oracle: set(engine delivery sequence of Select, and of the iterator returned by
// Evaluate) == reference denotation, for every context node of every document.

func init() {
	Register(&Monitor{
		ID:         "C01",
		Level:      "exploration",
		Exhaustive: []string{"exh1", "exh2", "exh3"},
		Rule: "exhaustive: every predicate-free path of 1 step (12 axes x 7 node tests) and of 2 steps (all 144 axis pairs x tests x {/,//} x {relative,absolute}), " +
			"explicit and abbreviated, thorough tier also all 1728 axis triples; evaluated from EVERY node (root, elements, attributes, text, comments) of every ordered tree shape with <= N elements over labels {a,b} " +
			"and of seeded random trees; plus seeded random paths of 1-5 steps; plus predicate-free paths over every axis on a document with 1100 same-named siblings, 1100 attributes on one element and a chain of 1100 nested elements (sizes beyond 256 and 1024). A case is (path, document, context); it is non-trivial when the reference denotation is non-empty; distinct by (path text, document, context).",
		Assume: []string{"the reference evaluator internal/xref implements the XPath 1.0 denotation of location paths (validated by conformance vectors and algebraic self-checks at setup time)",
			"the harness navigator internal/xdoc has xmlquery/htmlquery cursor semantics"},
		MinNontrivial: tierN(20000, 200000),
		Required:      []string{},
		Families: []Family{
			witnessFamily("C01"),
			{Name: "exh1", N: func(string) int { return len(c01Paths1()) }, Run: func(c *Case) { c01Exhaustive(c, c01Paths1()[c.Index]) }},
			{Name: "exh2", N: func(t string) int { return len(c01Paths2(t)) }, Run: func(c *Case) { c01Exhaustive(c, c01Paths2(c.Tier)[c.Index]) }},
			{Name: "exh3", N: func(t string) int {
				if t != "thorough" {
					return 0
				}
				return len(c01Paths3())
			}, Run: func(c *Case) { c01Exhaustive(c, c01Paths3()[c.Index]) }},
			{Name: "rand", N: tierN(30000, 2000000), Run: c01Random},
			{Name: "big", N: func(string) int { return len(c01BigPaths) }, Run: c01Big},
		},
	})
}

var c01Tests = []xref.Test{{Kind: "name", Local: "a"}, {Kind: "name", Local: "b"}, {Kind: "*"}, {Kind: "node"}, {Kind: "text"}, {Kind: "comment"}}

func testsFor(axis string, all bool) []xref.Test {
	if axis == "attribute" {
		ts := []xref.Test{{Kind: "name", Local: "id"}, {Kind: "*"}, {Kind: "node"}}
		if all {
			ts = append(ts, xref.Test{Kind: "name", Local: "k"}, xref.Test{Kind: "text"}, xref.Test{Kind: "comment"})
		}
		return ts
	}
	if all {
		return c01Tests
	}
	return []xref.Test{{Kind: "name", Local: "a"}, {Kind: "node"}}
}

// stepVariants returns the explicit step and, where one exists, its abbreviated spelling.
func stepVariants(axis string, t xref.Test) []*xref.Step {
	out := []*xref.Step{{Axis: axis, Test: t}}
	switch {
	case axis == "child":
		out = append(out, &xref.Step{Axis: axis, Test: t, Abbrev: "child"})
	case axis == "attribute":
		out = append(out, &xref.Step{Axis: axis, Test: t, Abbrev: "@"})
	case axis == "self" && t.Kind == "node":
		out = append(out, &xref.Step{Axis: axis, Test: t, Abbrev: "."})
	case axis == "parent" && t.Kind == "node":
		out = append(out, &xref.Step{Axis: axis, Test: t, Abbrev: ".."})
	}
	return out
}

var c01p1, c01p3 []xref.Path
var c01p2 = map[string][]xref.Path{}

func c01Paths1() []xref.Path {
	if c01p1 != nil {
		return c01p1
	}
	for _, ax := range xref.AxisNames {
		for _, t := range testsFor(ax, true) {
			for _, s := range stepVariants(ax, t) {
				for _, abs := range []bool{false, true} {
					c01p1 = append(c01p1, xref.Path{Abs: abs, Steps: []*xref.Step{s}})
					if abs {
						// "//step"
						c01p1 = append(c01p1, xref.Path{Abs: true, Steps: []*xref.Step{xgen.DSlash(), s}})
					}
				}
			}
		}
	}
	return c01p1
}

func c01Paths2(tier string) []xref.Path {
	if p, ok := c01p2[tier]; ok {
		return p
	}
	var out []xref.Path
	for _, ax1 := range xref.AxisNames {
		for _, ax2 := range xref.AxisNames {
			for _, t1 := range testsFor(ax1, tier == "thorough") {
				for _, t2 := range testsFor(ax2, true) {
					if tier != "thorough" && (t2.Kind == "comment" || (t2.Kind == "name" && t2.Local == "b")) {
						continue
					}
					s1s, s2s := stepVariants(ax1, t1), stepVariants(ax2, t2)
					// the abbreviated spellings are paired with each other, the explicit ones likewise
					for v := 0; v < 2; v++ {
						s1, s2 := s1s[0], s2s[0]
						if v == 1 {
							if len(s1s) == 1 && len(s2s) == 1 {
								continue
							}
							s1, s2 = s1s[len(s1s)-1], s2s[len(s2s)-1]
						}
						for _, sep := range []string{"/", "//"} {
							for _, abs := range []bool{false, true} {
								steps := []*xref.Step{s1}
								if sep == "//" {
									steps = append(steps, xgen.DSlash())
								}
								steps = append(steps, s2)
								out = append(out, xref.Path{Abs: abs, Steps: steps})
							}
						}
					}
				}
			}
		}
	}
	c01p2[tier] = out
	return out
}

func c01Paths3() []xref.Path {
	if c01p3 != nil {
		return c01p3
	}
	pick := func(ax string, k int) xref.Test {
		if ax == "attribute" {
			return []xref.Test{{Kind: "name", Local: "id"}, {Kind: "node"}}[k%2]
		}
		return []xref.Test{{Kind: "name", Local: "a"}, {Kind: "node"}, {Kind: "*"}}[k%3]
	}
	k := 0
	for _, a1 := range xref.AxisNames {
		for _, a2 := range xref.AxisNames {
			for _, a3 := range xref.AxisNames {
				for v := 0; v < 2; v++ {
					k++
					steps := []*xref.Step{{Axis: a1, Test: pick(a1, k)}}
					if v == 1 {
						steps = append(steps, xgen.DSlash())
					}
					steps = append(steps, &xref.Step{Axis: a2, Test: pick(a2, k/2)}, &xref.Step{Axis: a3, Test: pick(a3, k/3)})
					c01p3 = append(c01p3, xref.Path{Abs: k%5 == 0, Steps: steps})
				}
			}
		}
	}
	return c01p3
}

func (c *Case) c01Docs() []*xdoc.Doc {
	n, nr := 4, 6
	if c.Tier == "thorough" {
		n, nr = 5, 12
	}
	docs := append([]*xdoc.Doc(nil), shapeDocs(n)...)
	docs = append(docs, c.docPool("rand", nr, func(g *xgen.G) *xdoc.Doc { return g.Tree(xgen.DefaultTree()) })...)
	// wide documents (fan-out 11-12 of same-named siblings on several levels): sibling positions with two digits
	docs = append(docs, c.docPool("digit", 2, func(g *xgen.G) *xdoc.Doc { return g.DigitTree() })...)
	// narrow documents 10-33 levels deep
	docs = append(docs, c.docPool("deep", 2, func(g *xgen.G) *xdoc.Doc { return g.DeepTree() })...)
	// text and comment nodes whose data is an element name, reported as LocalName() by the navigator
	return append(docs, c.docPool("namelike", 3, func(g *xgen.G) *xdoc.Doc { return g.NameLikeTree(xgen.Names) })...)
}

// recordShape counts the iterator types of the compiled query (coverage evidence).
func (c *Case) recordShape(shape string) {
	for _, t := range []string{"descendantOverDescendantQuery", "cachedChildQuery", "followingQuery", "precedingQuery", "ancestorQuery",
		"attributeQuery", "parentQuery", "selfQuery", "descendantQuery", "childQuery", "mergeQuery", "filterQuery", "unionQuery",
		"lastFuncQuery", "groupQuery", "booleanQuery", "logicalQuery", "numericQuery", "functionQuery", "transformFunctionQuery", "absoluteQuery", "contextQuery"} {
		if containsType(shape, t) {
			c.Count("shape:" + t)
		}
	}
}

func containsType(shape, t string) bool {
	for i := 0; i+len(t) <= len(shape); i++ {
		if shape[i:i+len(t)] == t {
			// not a suffix of a longer type name (childQuery inside cachedChildQuery)
			if i > 0 {
				ch := shape[i-1]
				if (ch >= 'a' && ch <= 'z') || (ch >= 'A' && ch <= 'Z') {
					continue
				}
			}
			return true
		}
	}
	return false
}

func c01Exhaustive(c *Case, p xref.Path) {
	src := xref.Render(p)
	ce := c.compile(src, func() map[string]interface{} { return map[string]interface{}{} })
	if ce == nil {
		return
	}
	c.recordShape(queryShape(ce))
	for di, d := range c.c01Docs() {
		// quick tier: a deterministic half of the shape documents per path (all of them over two paths)
		if c.Tier != "thorough" && di < len(shapeDocs(4)) && (di+c.Index)%2 != 0 {
			continue
		}
		for _, ctx := range d.Nodes {
			c01One(c, ce, src, p, d, di, ctx)
			if c.Violated() {
				return
			}
		}
	}
	c.SampleEvery(211, func() interface{} {
		return map[string]interface{}{"family": c.Family, "path": src, "contexts": "every node of every document"}
	})
}

func c01One(c *Case, e *xpath.Expr, src string, p xref.Expr, d *xdoc.Doc, di int, ctx *xdoc.Node) {
	want, ok, why := refNodeSet(p, xref.NewCtx(ctx))
	if !ok {
		panic("C01: reference failed on " + src + ": " + why)
	}
	got, good := c.checkSelectSet(e, src, ctx, want)
	if !good {
		return
	}
	if len(want) > 0 {
		c.Nontrivial(fmt.Sprintf("%s|%d|%d", src, di, ctx.Ord))
	}
	// the iterator returned by Evaluate must denote the same set (sampled: every third context)
	if (ctx.Ord+di)%3 == 0 {
		ev := c.RunEvaluate(e, ctx)
		es, _ := AsSet(ev.Nodes)
		if ev.Aborted() || ev.Kind != "nodeset" || !SameNodes(es, want) {
			dd := docDetail(d, ctx)
			dd["expr"] = src
			dd["expected"] = xdoc.Labels(want)
			dd["observed"] = ev.String()
			dd["select_sequence"] = xdoc.Labels(got.Nodes)
			c.Violation("EVALUATE-SET", dd)
		}
	}
}

func c01Random(c *Case) {
	g := c.G()
	// documents are shared by groups of cases so that several paths meet the same tree
	dg := c.GShared("randdoc", int64(c.Index/8))
	o := xgen.DefaultTree()
	if dg.Chance(0.3) {
		o.MaxFan, o.MaxDepth = 4, 5
	}
	d := dg.Tree(o)
	names := namesIn(d)
	p := g.FreePath(1+g.Intn(5), names)
	if c.expensive(p, d) {
		return
	}
	src := xref.Render(p)
	ce := c.compile(src, func() map[string]interface{} { return map[string]interface{}{"doc": d.XML()} })
	if ce == nil {
		return
	}
	c.recordShape(queryShape(ce))
	for i := 0; i < 6; i++ {
		ctx := d.Nodes[g.Intn(len(d.Nodes))]
		if i == 0 {
			ctx = d.Root
		}
		c01One(c, ce, src, p, d, -1-c.Index/8, ctx)
		if c.Violated() {
			return
		}
	}
	// the other public entry points must select the same set: MustCompile, CompileWithNS with a nil map, the
	// package-level Select(), and Select through a navigator whose MoveTo adopts any position
	if c.Index%4 == 0 {
		ctx := d.Nodes[g.Intn(len(d.Nodes))]
		want, _, _ := refNodeSet(p, xref.NewCtx(ctx))
		alt := func(name string, f func(rec *xdoc.Rec) *xpath.NodeIterator) bool {
			var res SelResult
			rec := &xdoc.Rec{Limit: OpLimit}
			func() {
				defer func() {
					if x := recover(); x != nil {
						res.Panic, res.Budget = classify(x)
					}
					c.account(rec.Ops)
				}()
				drain(f(rec), d, &res)
			}()
			c.Count("entry:" + name)
			gs, _ := AsSet(res.Nodes)
			if res.Aborted() || res.Foreign > 0 || !SameNodes(gs, want) {
				dd := docDetail(d, ctx)
				dd["expr"], dd["entry_point"], dd["expected"], dd["observed_sequence"], dd["abort"] = src, name, xdoc.Labels(want), xdoc.Labels(res.Nodes), fmt.Sprint(res.Panic.String(), res.Budget)
				c.Violation("ENTRY-POINT-DIFFERS", dd)
				return false
			}
			return true
		}
		ok := alt("MustCompile", func(rec *xdoc.Rec) *xpath.NodeIterator { return xpath.MustCompile(src).Select(xdoc.NewNav(ctx, rec)) }) &&
			alt("CompileWithNS(nil)", func(rec *xdoc.Rec) *xpath.NodeIterator {
				e, err := xpath.CompileWithNS(src, nil)
				if err != nil {
					panic(err)
				}
				return e.Select(xdoc.NewNav(ctx, rec))
			}) &&
			alt("package Select", func(rec *xdoc.Rec) *xpath.NodeIterator { return xpath.Select(xdoc.NewNav(ctx, rec), src) }) &&
			alt("navigator adopting any position", func(rec *xdoc.Rec) *xpath.NodeIterator { return ce.Select(xdoc.NewNavAnyMove(ctx, rec)) })
		if !ok {
			return
		}
	}
	c.SampleEvery(997, func() interface{} { return map[string]interface{}{"family": "rand", "path": src, "doc": d.XML()} })
}

// namesIn returns the element names present in d (so that name tests have non-empty denotations).
func namesIn(d *xdoc.Doc) []string {
	seen := map[string]bool{}
	var out []string
	for _, n := range d.Nodes {
		if n.Kind == xdoc.Element && n.Prefix == "" && !seen[n.Name] {
			seen[n.Name] = true
			out = append(out, n.Name)
		}
	}
	if len(out) == 0 {
		return xgen.Names
	}
	return out
}

var c01BigPaths = []string{"//n", "/r/deep/descendant::n", "//text()", "/r/deep//n/..", "//item", "//@*", "/descendant::*", "/r/list/item/sub", "//sub/ancestor::*", "//sub/..",
	"descendant-or-self::node()", "descendant::n", "ancestor::*", "ancestor-or-self::n", "following::n", "preceding::item", "following-sibling::item", "preceding-sibling::*", "../..//sub",
	".//text()", "//n//text()", "/r/*/*", "/r/attrs/attribute::node()", "//item/following-sibling::node()", "self::n/n/n/..", "//deep//n/ancestor::deep"}

// c01Big: predicate-free paths on a document whose sibling lists, attribute list and nesting depth exceed 1024.
func c01Big(c *Case) {
	d := bigDoc(1100)
	src := c01BigPaths[c.Index]
	p := mustParse(src)
	ce := c.compile(src, func() map[string]interface{} { return map[string]interface{}{"doc": "xgen.BigTree(1100)"} })
	if ce == nil {
		return
	}
	r := d.Root.Children[0]
	deep := r.Children[2]
	mid := deep
	for i := 0; i < 1050; i++ {
		mid = mid.Children[0]
	}
	list := r.Children[0]
	for _, ctx := range []*xdoc.Node{d.Root, r, deep, mid, deep.Children[0], list.Children[0], list.Children[600], list.Children[len(list.Children)-1], r.Children[1].Attrs[700]} {
		want, ok, why := refNodeSet(p, xref.NewCtx(ctx))
		if !ok {
			panic("C01 big: " + why)
		}
		got := c.RunSelect(ce, ctx)
		gs, _ := AsSet(got.Nodes)
		if got.Aborted() || !SameNodes(gs, want) {
			miss, extra := 0, 0
			in := map[*xdoc.Node]bool{}
			for _, n := range gs {
				in[n] = true
			}
			for _, n := range want {
				if !in[n] {
					miss++
				}
			}
			extra = len(gs) - (len(want) - miss)
			c.Violation("SET", map[string]interface{}{"doc": "xgen.BigTree(1100): /r/list with 1100 item children, /r/attrs with 1100 attributes, /r/deep with 1100 nested n elements",
				"expr": src, "ctx": ctx.Label(), "expected_count": len(want), "observed_count": len(gs), "missing": miss, "extra": extra, "abort": fmt.Sprint(got.Panic.String(), got.Budget)})
			return
		}
		if len(want) > 0 {
			c.Nontrivial(fmt.Sprintf("big|%s|%d", src, ctx.Ord))
		}
	}
	c.Sample(map[string]interface{}{"family": "big", "path": src, "doc": "xgen.BigTree(1100)"})
}
