package mon

import (
	"fmt"
	"math"
	"strconv"
	"strings"

	"verif/internal/xdoc"
	"verif/internal/xgen"
	"verif/internal/xref"
)

// ---------------------------------------------------------------------------
// C08 - arithmetic and numeric functions follow XPath 1.0 / IEEE 754.

func init() {
	Register(&Monitor{
		ID:         "C08",
		Level:      "exploration",
		Exhaustive: []string{"grid"},
		Rule: "exhaustive: every number literal form the scanner accepts (3, 3., .5, 007, 12345.678, ...) alone, negated and doubly negated; number() of every lexical class of string (plain, signed, padded, non-numeric, empty, and the forms Go accepts but XPath does not: 1e3, +5, Inf, 0x10, 1_0) with and without padding; every operator + - * div over a grid of operands incl. NaN and +-Infinity; mod over 0..20 x 1..9; floor/ceiling over a grid; string() of every grid value with magnitude < 10^6. " +
			"Seeded random arithmetic trees of depth <= 4 over literals, unary minus, + - * div, mod, floor, ceiling, number(), count(), sum(), string-length() of flat paths on documents with numeric and non-numeric values (sum over a non-numeric node is out of fragment and skipped), and string() of their finite results below 10^6. " +
			"Non-trivial: the tree has at least one operator or function; distinct by (expression text, document, context).",
		Assume:        []string{"reference evaluator internal/xref (IEEE 754 double arithmetic of the Go runtime, XPath Number lexing and number->string)"},
		MinNontrivial: tierN(10000, 150000),
		Required:      []string{"grid:literal", "grid:number()", "grid:arith", "grid:mod", "grid:string()", "rand:string()"},
		Families: []Family{
			witnessFamily("C08"),
			{Name: "grid", N: func(string) int { return 6 }, Run: c08Grid},
			{Name: "sums", N: func(string) int { return len(c08SumValues)*len(c08SumCounts) + 400 }, Run: c08Sums},
			{Name: "big", N: bigN("C08"), Run: bigRun("C08")},
			{Name: "rand", N: tierN(250000, 10000000), Run: c08Random},
		},
	})
}

var c08Operands = []string{"0", "1", "2", "3", "7", "10", "0.5", "2.5", "0.1", "0.2", "100", "999999", "1000000", "0.000001", "12345.678", "3.", ".5", "007",
	"(0 div 0)", "(1 div 0)", "(-1 div 0)", "-0", "-1", "-2.5", "number('abc')", "number('')", "1 div 3", "2 div 3"}

func c08Grid(c *Case) {
	d := valueDoc(c.GShared("gdoc", 0))
	ctx := d.Root
	check := func(s string, counter string) bool {
		e := mustParse(s)
		_, ok := c.scalarCheck(e, ctx, "ABORT")
		c.Count(counter)
		c.Nontrivial("g|" + s)
		return ok
	}
	switch c.Index {
	case 0: // literal forms
		for _, lex := range append(append([]string(nil), xgen.NumLexemes...), "0.0", "00", "1.", "000.500", "4294967296", "9007199254740993", "0.30000000000000004", "123456789012345678901234567890") {
			for _, pre := range []string{"", "-", "--", "- -", "---"} {
				if !check(pre+lex, "grid:literal") {
					return
				}
			}
			if !check("string("+lex+")", "grid:literal") {
				return
			}
		}
	case 1: // number(string) lexical classes
		for _, s := range xgen.NumStrings {
			for _, pad := range [][2]string{{"", ""}, {" ", ""}, {"", " "}, {" \t", "\n "}, {"\r\n", ""}} {
				lit := pad[0] + s + pad[1]
				e := xref.Call{Name: "number", Args: []xref.Expr{xref.Str{V: lit}}}
				if _, ok := c.scalarCheck(e, ctx, "ABORT"); !ok {
					return
				}
				// the same conversion through arithmetic and through string(number())
				if _, ok := c.scalarCheck(xref.Bin{Op: "+", L: xref.Str{V: lit}, R: xref.Num{Lex: "1"}}, ctx, "ABORT"); !ok {
					return
				}
				c.Count("grid:number()")
				c.Nontrivial("n|" + lit)
			}
		}
	case 2: // binary operators over the operand grid
		for _, a := range c08Operands {
			for _, b := range c08Operands {
				for _, op := range []string{"+", "-", "*", "div"} {
					if !check(a+" "+op+" "+b, "grid:arith") {
						return
					}
				}
			}
		}
	case 3: // mod on non-negative integers with a non-zero divisor; floor / ceiling
		for a := 0; a <= 20; a++ {
			for b := 1; b <= 9; b++ {
				if !check(fmt.Sprintf("%d mod %d", a, b), "grid:mod") {
					return
				}
			}
		}
		// non-negative integers far beyond the small range (2^31, 2^32, 2^53, 2^63, 10^19, 10^20, a product)
		for _, a := range []string{"2147483648", "4294967296", "9007199254740992", "9223372036854775808", "10000000000000000000", "100000000000000000000", "(4294967296 * 4294967296)", "18446744073709551616"} {
			for _, b := range []string{"1", "2", "3", "7", "10", "1000", "4294967296", "9007199254740993"} {
				if !check(a+" mod "+b, "grid:mod") || !check(b+" mod "+a, "grid:mod") {
					return
				}
			}
		}
		for _, a := range c08Operands {
			for _, f := range []string{"floor", "ceiling"} {
				if !check(f+"("+a+")", "grid:arith") || !check(f+"(-("+a+"))", "grid:arith") || !check(f+"("+a+" div 3)", "grid:arith") {
					return
				}
			}
		}
	case 5: // the argument-less forms stand for the CONTEXT NODE, whatever its kind: number() = number(.) at elements, attributes, text, comments, the root
		for _, dd := range []*xdoc.Doc{d, valueDoc(c.GShared("gdoc", 1)), valueDoc(c.GShared("gdoc", 2))} {
			for _, n := range dd.Nodes {
				for _, s := range []string{"number()", "number() + 1", "-number()", "floor(number() div 2)", "number() * 2 - number(.)", "number() mod 4", "ceiling(number())", "string-length(string())", "number(string())", "sum(.)"} {
					if s == "sum(.)" && math.IsNaN(xref.StrToNumber(n.StringValue())) {
						continue // sum() over a non-numeric node is outside the quantifier
					}
					if _, ok := c.scalarCheck(mustParse(s), n, "ABORT"); !ok {
						return
					}
					c.Count("grid:context-node-forms")
				}
			}
		}
	case 4: // string() of finite values below one million
		for _, a := range c08Operands {
			for _, b := range c08Operands {
				for _, op := range []string{"+", "-", "*", "div"} {
					s := a + " " + op + " " + b
					v, oof := xref.SafeEval(mustParse(s), xref.NewCtx(ctx))
					if oof != "" {
						continue
					}
					if f, ok := v.(float64); ok && xgen.FiniteSmall(f) {
						if !check("string("+s+")", "grid:string()") {
							return
						}
					}
				}
			}
		}
	}
	c.Sample(map[string]interface{}{"family": "grid", "part": c.Index, "operands": c08Operands})
}

func c08Random(c *Case) {
	g := c.G()
	d := valueDoc(c.GShared("rdoc", int64(c.Index/8)))
	ctx := pickCtx(g, d)
	env := &xgen.Env{Doc: d, Ctx: ctx, Names: namesIn(d)}
	e := g.NumExpr(1+g.Intn(4), env)
	want, ok := c.scalarCheck(e, ctx, "ABORT")
	if !ok || want == nil {
		return
	}
	src := xref.Render(e)
	if c.Index%4 == 0 && !c.scalarCheckMany(e, []*xdoc.Node{ctx, d.Nodes[g.Intn(len(d.Nodes))], d.Nodes[g.Intn(len(d.Nodes))], ctx}) {
		return // (one compiled expression at several context nodes)
	}
	if c.Index%4 == 1 {
		// the arithmetic as a comparison operand inside a predicate: ONE instance of it is evaluated for every candidate
		// of the step (a value remembered from the first candidate shows at the others)
		lit := xref.Num{Lex: "1"}
		if f, isNum := want.(float64); isNum && xgen.FiniteSmall(f) && f >= 0 {
			lit = xref.Num{Lex: xref.NumToString(f)}
		}
		for _, pred := range []xref.Expr{xref.Bin{Op: g.Pick("=", "!=", "<", ">="), L: e, R: lit}, xref.Bin{Op: g.Pick("=", "<=", ">"), L: lit, R: e}} {
			pe := xref.Path{Abs: true, Steps: []*xref.Step{xgen.DSlash(), {Axis: "child", Abbrev: "child", Test: xref.Test{Kind: g.Pick("*", "node")}, Preds: []xref.Expr{pred}}}}
			if c.expensive(pe, d) {
				continue
			}
			wantNS, okNS, _ := refNodeSet(pe, xref.NewCtx(d.Root))
			if !okNS {
				continue
			}
			pce := c.compile(xref.Render(pe), func() map[string]interface{} { return docDetail(d, d.Root) })
			if pce == nil {
				return
			}
			if _, good := c.checkSelectSet(pce, xref.Render(pe), d.Root, wantNS); !good {
				return
			}
			c.Count("arithmetic-per-candidate")
		}
	}
	if f, isNum := want.(float64); isNum && xgen.FiniteSmall(f) && g.Chance(0.5) {
		if _, ok := c.scalarCheck(xref.Call{Name: "string", Args: []xref.Expr{e}}, ctx, "ABORT"); !ok {
			return
		}
		c.Count("rand:string()")
	}
	switch e.(type) {
	case xref.Num:
	default:
		c.Nontrivial(fmt.Sprintf("%s|%d|%d", src, c.Index/8, ctx.Ord))
	}
	if f, isNum := want.(float64); isNum {
		switch {
		case math.IsNaN(f):
			c.Count("result:NaN")
		case math.IsInf(f, 0):
			c.Count("result:Infinity")
		case f < 0:
			c.Count("result:negative")
		case f != math.Trunc(f):
			c.Count("result:fraction")
		}
	}
	c.SampleEvery(6007, func() interface{} {
		return map[string]interface{}{"family": "rand", "expr": src, "ctx": ctx.Label(), "value": fmtValue(want)}
	})
}

// ---------------------------------------------------------------------------
// C09 - string functions compute the XPath 1.0 result on their arguments.

func init() {
	Register(&Monitor{
		ID:         "C09",
		Level:      "exploration",
		Exhaustive: []string{"substring", "pairs", "ascii"},
		Rule: "exhaustive substring sweep: every string of a 14-string ASCII alphabet (incl. '', whitespace-only, 1..11 chars) x start in {-3 .. len+3 step 0.5} x length in {absent, -2 .. len+4 step 0.5, 100} (and NaN / +-Infinity arguments); every other function (concat, contains, starts-with, ends-with, substring-before, substring-after, string-length, normalize-space, translate, lower-case, string) over all pairs/triples of the alphabet; " +
			"seeded random nestings to depth 4 with flat node-set arguments (string-value of the first node in document order, '' for the empty node-set) and string-join over flat paths. Non-trivial: the result is a non-empty string, true, or a non-zero number; distinct by (expression text, document, context).",
		Assume:        []string{"reference evaluator internal/xref (string functions transcribed from the XPath 1.0 recommendation, round-half-up positions)", "ASCII arguments only, as the statement says"},
		MinNontrivial: tierN(10000, 150000),
		Required:      []string{"grid:substring", "grid:pairs", "grid:translate", "rand"},
		Families: []Family{
			witnessFamily("C09"),
			{Name: "substring", N: func(string) int { return len(xgen.StrAlphabet) }, Run: c09Substring},
			{Name: "pairs", N: func(string) int { return len(xgen.StrAlphabet) }, Run: c09Pairs},
			{Name: "ascii", N: func(string) int { return 95 }, Run: c09ASCII},
			{Name: "long", N: func(string) int { return 6 }, Run: c09Long},
			{Name: "ctxforms", N: func(string) int { return 12 }, Run: c09CtxForms},
			{Name: "big", N: bigN("C09"), Run: bigRun("C09")},
			{Name: "rand", N: tierN(250000, 10000000), Run: c09Random},
		},
	})
}

func numLitExpr(f float64) xref.Expr {
	s := strconv.FormatFloat(math.Abs(f), 'f', -1, 64)
	if f < 0 {
		return xref.Neg{X: xref.Num{Lex: s}}
	}
	return xref.Num{Lex: s}
}

func nontrivialValue(v interface{}) bool {
	switch x := v.(type) {
	case string:
		return x != ""
	case bool:
		return x
	case float64:
		return x != 0 && !math.IsNaN(x)
	}
	return false
}

func c09Substring(c *Case) {
	s := xgen.StrAlphabet[c.Index]
	d := valueDoc(c.GShared("gdoc", 0))
	ctx := d.Root
	n := float64(len(s))
	run := func(e xref.Expr) bool {
		want, ok := c.scalarCheck(e, ctx, "ABORT")
		c.Count("grid:substring")
		if ok && nontrivialValue(want) {
			c.Nontrivial(xref.Render(e))
		}
		return ok
	}
	for start := -3.0; start <= n+3; start += 0.5 {
		if !run(xref.Call{Name: "substring", Args: []xref.Expr{xref.Str{V: s}, numLitExpr(start)}}) {
			return
		}
		lengths := []float64{100}
		for l := -2.0; l <= n+4; l += 0.5 {
			lengths = append(lengths, l)
		}
		for _, l := range lengths {
			if !run(xref.Call{Name: "substring", Args: []xref.Expr{xref.Str{V: s}, numLitExpr(start), numLitExpr(l)}}) {
				return
			}
		}
	}
	// NaN and infinite arguments (the statement promises no failure for finite arguments only; the
	// values for these are defined by XPath and are compared too, but an abort here is reported as such)
	for _, st := range []string{"0 div 0", "1 div 0", "-1 div 0", "1", "-2"} {
		for _, ln := range []string{"0 div 0", "1 div 0", "-1 div 0", "2"} {
			if st == "1" && ln == "2" || st == "-2" && ln == "2" {
				continue
			}
			e := xref.Call{Name: "substring", Args: []xref.Expr{xref.Str{V: s}, mustParse(st), mustParse(ln)}}
			want, oof := xref.SafeEval(e, xref.NewCtx(ctx))
			if oof != "" {
				continue
			}
			ce := c.compile(xref.Render(e), func() map[string]interface{} { return map[string]interface{}{} })
			if ce == nil {
				return
			}
			got := c.RunEvaluate(ce, ctx)
			c.Count("grid:substring-nonfinite")
			if !got.Aborted() && !sameValue(got, want) {
				c.Violation("VALUE", map[string]interface{}{"expr": xref.Render(e), "expected": fmtValue(want), "observed": got.String()})
				return
			}
			if got.Panic != nil && got.Panic.Runtime {
				c.Violation("ABORT", map[string]interface{}{"expr": xref.Render(e), "expected": fmtValue(want), "observed": got.String()})
				return
			}
		}
	}
	c.Sample(map[string]interface{}{"family": "substring", "string": s, "starts": fmt.Sprintf("-3..%v step 0.5", n+3), "lengths": fmt.Sprintf("absent, -2..%v step 0.5, 100", n+4)})
}

func c09Pairs(c *Case) {
	a := xgen.StrAlphabet[c.Index]
	d := valueDoc(c.GShared("gdoc", 0))
	ctx := d.Root
	S := func(s string) xref.Expr { return xref.Str{V: s} }
	run := func(counter string, e xref.Expr) bool {
		want, ok := c.scalarCheck(e, ctx, "ABORT")
		c.Count(counter)
		if ok && nontrivialValue(want) {
			c.Nontrivial(xref.Render(e))
		}
		return ok
	}
	for _, f := range []string{"string-length", "normalize-space", "lower-case", "string"} {
		if !run("grid:pairs", xref.Call{Name: f, Args: []xref.Expr{S(a)}}) {
			return
		}
	}
	for _, b := range xgen.StrAlphabet {
		for _, f := range []string{"concat", "contains", "starts-with", "ends-with", "substring-before", "substring-after"} {
			if !run("grid:pairs", xref.Call{Name: f, Args: []xref.Expr{S(a), S(b)}}) {
				return
			}
		}
		if !run("grid:pairs", xref.Call{Name: "concat", Args: []xref.Expr{S(a), S(b), S(a)}}) {
			return
		}
		for _, t := range []string{"", "A", "AB", "xyz", "  ", "abcdef"} {
			if !run("grid:translate", xref.Call{Name: "translate", Args: []xref.Expr{S(a), S(b), S(t)}}) {
				return
			}
		}
	}
	c.Sample(map[string]interface{}{"family": "pairs", "first": a, "alphabet": xgen.StrAlphabet})
}

func c09Random(c *Case) {
	g := c.G()
	d := valueDoc(c.GShared("rdoc", int64(c.Index/8)))
	ctx := pickCtx(g, d)
	env := &xgen.Env{Doc: d, Ctx: ctx, Names: namesIn(d)}
	e := g.StrFuncTop(1+g.Intn(4), env)
	want, ok := c.scalarCheck(e, ctx, "ABORT")
	c.Count("rand")
	if !ok || want == nil {
		return
	}
	if c.Index%3 == 0 {
		// the same compiled expression at other context nodes: nothing of the first evaluation may be remembered
		if !c.scalarCheckMany(e, []*xdoc.Node{ctx, d.Nodes[g.Intn(len(d.Nodes))], d.Nodes[g.Intn(len(d.Nodes))], ctx}) {
			return
		}
		// ... and as the value every candidate of a step is tested with
		pred := xref.Path{Abs: true, Steps: []*xref.Step{xgen.DSlash(), {Axis: "child", Abbrev: "child", Test: xref.Test{Kind: "*"},
			Preds: []xref.Expr{xref.Bin{Op: ">", L: xref.Call{Name: "string-length", Args: []xref.Expr{xref.Call{Name: "string", Args: []xref.Expr{e}}}}, R: xref.Num{Lex: fmt.Sprint(g.Intn(3))}}}}}}
		if !c.expensive(pred, d) {
			if wantNS, okNS, _ := refNodeSet(pred, xref.NewCtx(d.Root)); okNS {
				if pce := c.compile(xref.Render(pred), func() map[string]interface{} { return docDetail(d, d.Root) }); pce != nil {
					if _, good := c.checkSelectSet(pce, xref.Render(pred), d.Root, wantNS); !good {
						return
					}
					c.Count("string-function-per-candidate")
				} else {
					return
				}
			}
		}
	}
	if nontrivialValue(want) {
		c.Nontrivial(fmt.Sprintf("%s|%d|%d", xref.Render(e), c.Index/8, ctx.Ord))
	}
	c.SampleEvery(6007, func() interface{} {
		return map[string]interface{}{"family": "rand", "expr": xref.Render(e), "ctx": ctx.Label(), "value": fmtValue(want)}
	})
}

func strLit(s string) (xref.Expr, bool) {
	if strings.Contains(s, "'") && strings.Contains(s, "\"") {
		return nil, false
	}
	return xref.Str{V: s}, true
}

// c09ASCII: every printable ASCII character, alone and embedded, through every string function
// (no letter, digit or punctuation mark is special to any of them).
func c09ASCII(c *Case) {
	ch := string(rune(32 + c.Index))
	d := valueDoc(c.GShared("gdoc", 0))
	ctx := d.Root
	run := func(e xref.Expr) bool {
		want, ok := c.scalarCheck(e, ctx, "ABORT")
		c.Count("grid:ascii")
		if ok && nontrivialValue(want) {
			c.Nontrivial(xref.Render(e))
		}
		return ok
	}
	for _, s := range []string{ch, ch + ch, "a" + ch + "b", ch + "a", "ja" + ch + ch + " 12", "A" + ch + "Z"} {
		lit, ok := strLit(s)
		if !ok {
			continue
		}
		chl, _ := strLit(ch)
		for _, f := range []string{"lower-case", "string-length", "normalize-space", "string"} {
			if !run(xref.Call{Name: f, Args: []xref.Expr{lit}}) {
				return
			}
		}
		for _, f := range []string{"contains", "starts-with", "ends-with", "substring-before", "substring-after", "concat"} {
			if !run(xref.Call{Name: f, Args: []xref.Expr{lit, chl}}) || !run(xref.Call{Name: f, Args: []xref.Expr{chl, lit}}) {
				return
			}
		}
		if !run(xref.Call{Name: "translate", Args: []xref.Expr{lit, chl, xref.Str{V: "#"}}}) || !run(xref.Call{Name: "translate", Args: []xref.Expr{lit, xref.Str{V: "ab"}, xref.Str{V: ch + ch}}}) ||
			!run(xref.Call{Name: "translate", Args: []xref.Expr{lit, chl, xref.Str{V: ""}}}) || !run(xref.Call{Name: "substring", Args: []xref.Expr{lit, xref.Num{Lex: "2"}, xref.Num{Lex: "2"}}}) {
			return
		}
	}
	c.Sample(map[string]interface{}{"family": "ascii", "char": ch})
}

// c09Long: strings beyond 256 and 65536 characters (lengths and positions that do not fit a byte or a 16-bit word).
func c09Long(c *Case) {
	n := []int{255, 256, 257, 300, 65535, 65537}[c.Index]
	d := valueDoc(c.GShared("gdoc", 0))
	ctx := d.Root
	s := strings.Repeat("abcdefghij", n/10+1)[:n]
	lit := xref.Str{V: s}
	run := func(e xref.Expr) bool {
		_, ok := c.scalarCheck(e, ctx, "ABORT")
		c.Count("grid:long")
		c.Nontrivial(fmt.Sprintf("long|%d|%d", n, c.Rep.Counters["grid:long"]))
		return ok
	}
	num := func(i int) xref.Expr { return xref.Num{Lex: fmt.Sprint(i)} }
	for _, e := range []xref.Expr{
		xref.Call{Name: "string-length", Args: []xref.Expr{lit}},
		xref.Call{Name: "string-length", Args: []xref.Expr{xref.Call{Name: "concat", Args: []xref.Expr{lit, lit, xref.Str{V: "x"}}}}},
		xref.Call{Name: "substring", Args: []xref.Expr{lit, num(n - 2)}},
		xref.Call{Name: "substring", Args: []xref.Expr{lit, num(n - 2), num(5)}},
		xref.Call{Name: "substring", Args: []xref.Expr{lit, num(250), num(10)}},
		xref.Call{Name: "substring", Args: []xref.Expr{lit, num(n), num(1)}},
		xref.Call{Name: "substring", Args: []xref.Expr{lit, num(n + 1)}},
		xref.Call{Name: "string-length", Args: []xref.Expr{xref.Call{Name: "substring-after", Args: []xref.Expr{lit, xref.Str{V: s[n-4:]}}}}},
		xref.Call{Name: "string-length", Args: []xref.Expr{xref.Call{Name: "substring-before", Args: []xref.Expr{lit, xref.Str{V: s[n-4:]}}}}},
		xref.Call{Name: "contains", Args: []xref.Expr{lit, xref.Str{V: s[n-7:]}}},
		xref.Call{Name: "ends-with", Args: []xref.Expr{lit, xref.Str{V: s[n-7:]}}},
		xref.Call{Name: "starts-with", Args: []xref.Expr{lit, xref.Str{V: s[:n-1]}}},
		xref.Call{Name: "string-length", Args: []xref.Expr{xref.Call{Name: "translate", Args: []xref.Expr{lit, xref.Str{V: "abc"}, xref.Str{V: "A"}}}}},
		xref.Call{Name: "string-length", Args: []xref.Expr{xref.Call{Name: "normalize-space", Args: []xref.Expr{xref.Call{Name: "concat", Args: []xref.Expr{xref.Str{V: "  "}, lit, xref.Str{V: "  x "}}}}}}},
		xref.Call{Name: "substring", Args: []xref.Expr{xref.Call{Name: "lower-case", Args: []xref.Expr{xref.Call{Name: "concat", Args: []xref.Expr{lit, xref.Str{V: "QZ"}}}}}, num(n)}},
	} {
		if !run(e) {
			return
		}
	}
	c.Sample(map[string]interface{}{"family": "long", "length": n})
}

// c08Sums: sum() is the IEEE 754 double sum of the converted string-values. XPath leaves the order of the additions
// open, so the oracle is used only where it does not matter: k EQUAL decimal fractions (0.1 ten times is
// 0.9999999999999999, not 1), k = 3 ... 1100, and small mixed sets for which EVERY order of addition gives the same
// double (all permutations are tried by the harness). A compensated or pairwise summation, a float32 or decimal
// accumulator differ from every order.
var c08SumValues = []string{"0.1", "0.2", "0.3", "0.7", "1.1", "19.99", "0.01", "1000000.1", "-0.1", "2.675", "33.33", "0.000001"}
var c08SumCounts = []int{3, 4, 5, 6, 7, 8, 9, 10, 11, 12, 20, 50, 100, 300, 1100}

func c08Sums(c *Case) {
	var vals []string
	if c.Index < len(c08SumValues)*len(c08SumCounts) {
		v, k := c08SumValues[c.Index%len(c08SumValues)], c08SumCounts[c.Index/len(c08SumValues)]
		for i := 0; i < k; i++ {
			vals = append(vals, v)
		}
		c.Count("sums:equal-values")
	} else {
		g := c.G()
		pool := append(append([]string(nil), c08SumValues...), "1", "2", "0.5", "0.25", "100", "-3", "1e3", "x", "")
		k := 3 + g.Intn(4)
		for i := 0; i < k; i++ {
			vals = append(vals, pool[g.Intn(len(pool))])
		}
		var fs []float64
		for _, v := range vals {
			if f := xref.StrToNumber(v); !math.IsNaN(f) {
				fs = append(fs, f)
			} else {
				c.Skip("sum() over a non-numeric node (outside the quantifier)")
				return
			}
		}
		if !sumOrderIndependent(fs) {
			c.Skip("the double sum of this set depends on the order of the additions (XPath leaves the order open)")
			return
		}
		c.Count("sums:mixed-order-independent")
	}
	d := xdoc.NewDoc()
	r := d.Root.AddElem("", "r", "")
	for i, v := range vals {
		e := r.AddElem("", "v", "")
		e.AddText(v)
		e.AddAttr("", "a", "", v)
		if i%3 == 1 {
			r.AddText(" ")
		}
	}
	d.Finish()
	for _, src := range []string{"sum(/r/v)", "sum(/r/v/@a)", "sum(v)", "sum(/r/v) div count(/r/v)", "sum(/r/v) - sum(/r/v/@a)", "string(sum(/r/v))", "sum(/r/v) = sum(/r/v/@a)", "floor(sum(/r/v) * 1000)", "sum(/r/v | /r/v/@a)", "sum(/r/v[position() <= 3])"} {
		if strings.Contains(src, "string(") && len(vals) > 12 {
			continue // string() of a number is stated below one million only
		}
		equal := c.Index < len(c08SumValues)*len(c08SumCounts)
		if (src == "sum(/r/v | /r/v/@a)" || src == "sum(/r/v[position() <= 3])") && (!equal || len(vals) > 12) {
			continue // other sets of numbers than the one whose order-independence was established
		}
		if _, ok := c.scalarCheck(mustParse(src), r, "ABORT"); !ok {
			return
		}
	}
	c.Nontrivial(fmt.Sprintf("sums|%d|%v", c.Index, len(vals)))
	c.SampleEvery(17, func() interface{} {
		show := vals
		if len(show) > 8 {
			show = show[:8]
		}
		return map[string]interface{}{"family": "sums", "values": show, "count": len(vals)}
	})
}

// sumOrderIndependent tries every order of addition of at most 6 numbers.
func sumOrderIndependent(fs []float64) bool {
	if len(fs) > 6 {
		return false
	}
	first, init := 0.0, false
	idx := make([]int, len(fs))
	for i := range idx {
		idx[i] = i
	}
	var rec func(k int) bool
	rec = func(k int) bool {
		if k == len(idx) {
			s := 0.0
			for _, i := range idx {
				s += fs[i]
			}
			if !init {
				first, init = s, true
				return true
			}
			return SameNumber(s, first)
		}
		for i := k; i < len(idx); i++ {
			idx[k], idx[i] = idx[i], idx[k]
			ok := rec(k + 1)
			idx[k], idx[i] = idx[i], idx[k]
			if !ok {
				return false
			}
		}
		return true
	}
	return rec(0)
}

// c09CtxForms: string(), normalize-space() and the other argument-less forms stand for the context node whatever
// its kind (element, attribute, text, comment, root) - evaluated at EVERY node of a dozen documents.
func c09CtxForms(c *Case) {
	d := valueDoc(c.GShared("cdoc", int64(c.Index)))
	if c.Index%3 == 2 {
		d = c.GShared("cdoc", int64(c.Index)).NSTree(false)
	}
	for _, n := range d.Nodes {
		for _, s := range []string{"string()", "normalize-space()", "concat(string(), '|', normalize-space())", "string-length(string())", "starts-with(string(), '1')", "contains(normalize-space(), ' ')",
			"substring(string(), 2)", "translate(string(), '0123456789', '##########')", "string() = string(.)", "normalize-space() = normalize-space(.)", "concat(name(), '=', string())", "lower-case(string())"} {
			if _, ok := c.scalarCheck(mustParse(s), n, "ABORT"); !ok {
				return
			}
			c.Count("ctxforms")
		}
		c.Nontrivial(fmt.Sprintf("ctxforms|%d|%d", c.Index, n.Ord))
	}
	c.Sample(map[string]interface{}{"family": "ctxforms", "doc_nodes": len(d.Nodes)})
}
