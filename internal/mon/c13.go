package mon

import (
	"fmt"

	"verif/internal/xdoc"
	"verif/internal/xgen"
	"verif/internal/xref"
)

// C13 - absolute paths ignore the start node; relative paths compose with the context.
//
// Oracle: metamorphic, engine vs engine, plus the left side against the reference so that a
// fault breaking both sides equally is still seen.

func init() {
	Register(&Monitor{
		ID:    "C13",
		Level: "exploration",
		Rule: "for generated paths P of the C01/C02 fragments (incl. cursor-hostile and/or operands and unions) on random documents: (a) an absolute P selected from EVERY node n of the document equals P selected from the root; (b) a relative P selected at n equals addr(n)/P selected from the root, addr(n) being the child-position/@name address of n, for every n; (c) P[true()], (P), P | P select the same set as P, and not(not(P)) = boolean(P) = (set non-empty). Left sides are also compared with the reference. " +
			"Non-trivial: P's denotation is non-empty; distinct by (expression text, document, node, identity).",
		Assume:        []string{"reference evaluator internal/xref for the left sides; identities themselves are engine-vs-engine"},
		MinNontrivial: tierN(10000, 150000),
		Required:      []string{"identity:abs", "identity:compose", "identity:wrap", "identity:truth"},
		Families: []Family{
			witnessFamily("C13"),
			{Name: "abs", N: tierN(10000, 400000), Run: c13Abs},
			{Name: "big", N: bigN("C13"), Run: bigRun("C13")},
			{Name: "compose", N: tierN(10000, 400000), Run: c13Compose},
			{Name: "wrap", N: tierN(80000, 4000000), Run: c13Wrap},
		},
	})
}

func c13Doc(c *Case, div int) *xdoc.Doc {
	dg := c.GShared("doc", int64(c.Index/div))
	if (c.Index/div)%8 == 5 {
		return dg.DeepTree()
	}
	if (c.Index/div)%8 == 6 {
		return dg.NameLikeTree(xgen.Names)
	}
	if dg.Chance(0.25) {
		return dg.WideTree(4, 4)
	}
	return dg.Tree(xgen.DefaultTree())
}

// c13Path draws a path of the C01/C02 fragments.
func c13Path(g *xgen.G, env *xgen.Env, abs bool) xref.Path {
	p := g.FreePath(1+g.Intn(3), env.Names)
	if g.Chance(0.5) {
		g.AddPreds(&p, 1, env)
	}
	p.Abs = abs
	if !abs && p.Steps[0].Abbrev == "//" {
		p.Steps = append([]*xref.Step{xgen.SelfDot()}, p.Steps...)
	}
	return p
}

func c13Abs(c *Case) {
	g := c.G()
	d := c13Doc(c, 4)
	env := &xgen.Env{Doc: d, Ctx: d.Root, Names: namesIn(d)}
	var e xref.Expr = c13Path(g, env, true)
	if g.Chance(0.2) {
		e = xref.Bin{Op: "|", L: e, R: c13Path(g, env, true)}
	}
	switch g.Intn(6) {
	case 0: // a parenthesised absolute path, possibly continued
		e = xref.Group{X: e}
	case 1:
		e = xref.Path{Start: xref.Group{X: e}, Steps: []*xref.Step{g.FreeStep(env.Names)}}
	case 2: // ... continued by '//'
		if st := g.FreeStep(env.Names); st.Seq == nil && st.Abbrev != "//" {
			e = xref.Path{Start: xref.Group{X: e}, Steps: []*xref.Step{xgen.DSlash(), st}}
		}
	}
	if c.expensive(e, d) {
		return
	}
	src := xref.Render(e)
	want, ok, why := refNodeSet(e, xref.NewCtx(d.Root))
	if !ok {
		c.Skip("out-of-fragment: " + why)
		return
	}
	ce := c.compile(src, func() map[string]interface{} { return docDetail(d, d.Root) })
	if ce == nil {
		return
	}
	c.recordShape(queryShape(ce))
	if _, good := c.checkSelectSet(ce, src, d.Root, want); !good {
		return
	}
	for _, n := range d.Nodes[1:] {
		c.Count("identity:abs")
		got := c.RunSelect(ce, n)
		gs, _ := AsSet(got.Nodes)
		if got.Aborted() || !SameNodes(gs, want) {
			dd := docDetail(d, n)
			dd["expr"] = src
			dd["from_root"] = xdoc.Labels(want)
			dd["from_node"] = xdoc.Labels(gs)
			dd["abort"] = fmt.Sprint(got.Panic.String(), got.Budget)
			c.Violation("ABSOLUTE-DEPENDS-ON-START-NODE", dd)
			return
		}
		if len(want) > 0 {
			c.Nontrivial(fmt.Sprintf("abs|%s|%d|%d", src, c.Index/4, n.Ord))
		}
	}
	c.SampleEvery(499, func() interface{} {
		return map[string]interface{}{"family": "abs", "expr": src, "start_nodes": len(d.Nodes), "result": xdoc.Labels(want)}
	})
}

func c13Compose(c *Case) {
	g := c.G()
	d := c13Doc(c, 4)
	env := &xgen.Env{Doc: d, Ctx: d.Nodes[g.Intn(len(d.Nodes))], Names: namesIn(d)}
	p := c13Path(g, env, false)
	if c.expensive(p, d) {
		return
	}
	src := xref.Render(p)
	ce := c.compile(src, func() map[string]interface{} { return docDetail(d, d.Root) })
	if ce == nil {
		return
	}
	c.recordShape(queryShape(ce))
	for _, n := range d.Nodes {
		want, ok, why := refNodeSet(p, xref.NewCtx(n))
		if !ok {
			c.Skip("out-of-fragment: " + why)
			return
		}
		if _, good := c.checkSelectSet(ce, src, n, want); !good {
			return
		}
		// the absolute path that first addresses n and then continues with p
		ap := addrPath(n)
		ap.Steps = append(ap.Steps, p.Steps...)
		asrc := xref.Render(ap)
		ace := c.compile(asrc, func() map[string]interface{} { return docDetail(d, n) })
		if ace == nil {
			return
		}
		c.Count("identity:compose")
		got := c.RunSelect(ace, d.Root)
		gs, _ := AsSet(got.Nodes)
		if got.Aborted() || !SameNodes(gs, want) {
			dd := docDetail(d, n)
			dd["relative"] = src
			dd["composed"] = asrc
			dd["relative_at_node"] = xdoc.Labels(want)
			dd["composed_from_root"] = xdoc.Labels(gs)
			dd["abort"] = fmt.Sprint(got.Panic.String(), got.Budget)
			c.Violation("RELATIVE-PATH-DOES-NOT-COMPOSE", dd)
			return
		}
		if len(want) > 0 {
			c.Nontrivial(fmt.Sprintf("cmp|%s|%d|%d", src, c.Index/4, n.Ord))
		}
	}
	c.SampleEvery(499, func() interface{} {
		return map[string]interface{}{"family": "compose", "relative": src, "nodes": len(d.Nodes), "example_address": xref.Render(addrPath(d.Nodes[len(d.Nodes)-1]))}
	})
}

func c13Wrap(c *Case) {
	g := c.G()
	d := c13Doc(c, 8)
	ctx := d.Nodes[g.Intn(len(d.Nodes))]
	if g.Chance(0.3) {
		ctx = d.Root
	}
	env := &xgen.Env{Doc: d, Ctx: ctx, Names: namesIn(d)}
	var p xref.Expr
	switch g.Intn(5) {
	case 0:
		p = xref.Bin{Op: "|", L: c13Path(g, env, g.Chance(0.3)), R: c13Path(g, env, g.Chance(0.3))}
	case 1:
		// paths with positional first predicates on child steps (C03 fragment): the wrapping identities hold for them too
		p = g.PosPath(env, 4)
	default:
		p = c13Path(g, env, g.Chance(0.3))
	}
	if c.expensive(p, d) {
		return
	}
	src := xref.Render(p)
	want, ok, why := refNodeSet(p, xref.NewCtx(ctx))
	if !ok {
		c.Skip("out-of-fragment: " + why)
		return
	}
	det := func() map[string]interface{} { return docDetail(d, ctx) }
	ce := c.compile(src, det)
	if ce == nil {
		return
	}
	c.recordShape(queryShape(ce))
	if _, good := c.checkSelectSet(ce, src, ctx, want); !good {
		return
	}
	grp := xref.Group{X: p}
	tr := xref.Call{Name: "true"}
	wraps := map[string]xref.Expr{
		"(P)":         grp,
		"(P)[true()]": xref.Filter{X: grp, Preds: []xref.Expr{tr}},
		"P | P":       xref.Bin{Op: "|", L: p, R: p},
	}
	if pp, isPath := p.(xref.Path); isPath && len(pp.Steps) > 0 {
		last := pp.Steps[len(pp.Steps)-1]
		if last.Abbrev != "//" && last.Seq == nil {
			cp := pp
			cp.Steps = append([]*xref.Step(nil), pp.Steps...)
			ls := *last
			if ls.Abbrev == "." || ls.Abbrev == ".." {
				ls.Abbrev = ""
			}
			ls.Preds = append(append([]xref.Expr(nil), last.Preds...), tr)
			cp.Steps[len(cp.Steps)-1] = &ls
			wraps["P[true()]"] = cp
		}
	}
	for name, w := range wraps {
		wsrc := xref.Render(w)
		wce := c.compile(wsrc, det)
		if wce == nil {
			return
		}
		c.Count("identity:wrap")
		got := c.RunSelect(wce, ctx)
		gs, _ := AsSet(got.Nodes)
		if got.Aborted() || !SameNodes(gs, want) {
			dd := det()
			dd["P"] = src
			dd["identity"] = name
			dd["wrapped"] = wsrc
			dd["P_selects"] = xdoc.Labels(want)
			dd["wrapped_selects"] = xdoc.Labels(gs)
			dd["abort"] = fmt.Sprint(got.Panic.String(), got.Budget)
			c.Violation("WRAPPING-CHANGES-NODE-SET", dd)
			return
		}
	}
	// (P) keeps the node-set of P also when the path goes on: (P)/q and (P)//q select what q selects from the nodes of P
	if c.Index%3 == 0 {
		q := g.FreeStep(env.Names)
		if q.Seq == nil && q.Abbrev != "//" {
			for _, steps := range [][]*xref.Step{{q}, {xgen.DSlash(), q}} {
				w := xref.Path{Start: grp, Steps: steps}
				if c.expensive(w, d) {
					continue
				}
				wantW, okW, _ := refNodeSet(w, xref.NewCtx(ctx))
				if !okW {
					continue
				}
				wsrc := xref.Render(w)
				wce := c.compile(wsrc, det)
				if wce == nil {
					return
				}
				c.Count("identity:continued")
				if _, good := c.checkSelectSet(wce, wsrc, ctx, wantW); !good {
					return
				}
			}
		}
	}
	truth := len(want) > 0
	for _, w := range []xref.Expr{xref.Call{Name: "not", Args: []xref.Expr{xref.Call{Name: "not", Args: []xref.Expr{p}}}}, xref.Call{Name: "boolean", Args: []xref.Expr{p}}} {
		wsrc := xref.Render(w)
		wce := c.compile(wsrc, det)
		if wce == nil {
			return
		}
		c.Count("identity:truth")
		got := c.RunEvaluate(wce, ctx)
		if got.Kind != "bool" || got.B != truth {
			dd := det()
			dd["P"] = src
			dd["wrapped"] = wsrc
			dd["P_selects"] = xdoc.Labels(want)
			dd["observed"] = got.String()
			c.Violation("TRUTH-VALUE-DIFFERS-FROM-NON-EMPTINESS", dd)
			return
		}
	}
	if len(want) > 0 {
		c.Nontrivial(fmt.Sprintf("wrap|%s|%d|%d", src, c.Index/8, ctx.Ord))
	}
	c.SampleEvery(2003, func() interface{} {
		return map[string]interface{}{"family": "wrap", "P": src, "ctx": ctx.Label(), "selects": xdoc.Labels(want)}
	})
}
