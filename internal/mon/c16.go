package mon

import (
	"errors"
	"fmt"
	"regexp"
	"runtime"
	"strings"
	"sync"
	"sync/atomic"

	"github.com/antchfx/xpath"

	"verif/internal/xdoc"
	"verif/internal/xgen"
	"verif/internal/xref"
)

// C16 - regex functions match Go regexp; the pattern cache is exact, bounded, thread-safe.
//
// (1) differential: matches(s,p) vs regexp.MatchString, replace(s,p,r) vs ReplaceAllString with $n
//     as group n, a non-compiling constant pattern rejected by Compile.
// (2) cache monitors per event, on caches the harness creates with NewLoadingCache and on a swapped
//     RegexpCache: the value returned for key k was produced by load(k); entries <= capacity at
//     every observation; a failed load is not remembered; data races and fatal errors (-race build).
// The load function is harness code and runs exactly in the unlocked window between the read-lock
// miss and the write-lock store, so it is the injection point for delays, barriers and failures.

func init() {
	Register(&Monitor{
		ID:         "C16",
		Race:       true,
		Level:      "exploration",
		Exhaustive: []string{"cacheseq"},
		Rule: "(1) patterns from a regex grammar (literals, classes, alternation, groups <= 12, quantifiers, anchors, (?i)), subjects over the pattern alphabet, replacement templates with $1..$12 adjacent to digits and letters: matches()/replace() through Evaluate with literal and node-set arguments vs Go's regexp; invalid constant patterns must be rejected by Compile; NON-constant patterns and templates taken from document values (string(@p)), one compiled expression evaluated on many nodes with different patterns. " +
			"(2) sequential: EVERY key sequence of length <= 6 over 4 keys x capacities {0,1,2,3,8} x load-failure scripts; concurrent: 2-16 goroutines x 20-60 gets over 2-6 keys, capacities {0,1,2,3,8}, load() yielding/blocking on a barrier to force several goroutines through the miss window together, an observer goroutine sampling the cache statistics hook; swapped RegexpCache with a custom loader and small capacity driven through matches()/replace(). " +
			"Non-trivial: a regex case whose subject matches, or a cache history with at least one reset or one overlapping pair of loads; distinct by (pattern, subject, template) resp. (capacity, key sequence / interleaving signature).",
		Assume:        []string{"Go's regexp package is the definition of matches()/replace() (as the statement says)", "the statistics hook takes the cache's own read lock"},
		MinNontrivial: tierN(15000, 200000),
		Required:      []string{"regex:matches", "regex:replace", "regex:dynamic-pattern", "regex:invalid-constant-rejected", "regex:escape-differential", "cachebig:capacity-reached", "cache:seq", "cache:failed-load-retried", "cache:concurrent", "cache:swapped-global", "cache:observer-samples"},
		Families: []Family{
			witnessFamily("C16"),
			{Name: "regex", N: tierN(150000, 6000000), Run: c16Regex},
			{Name: "dynpat", N: tierN(20000, 800000), Run: c16DynPattern},
			{Name: "escapes", N: func(string) int { return 94 }, Run: c16Escapes},
			{Name: "cacheseq", N: func(string) int { return 5 * 4 }, Run: c16CacheSeq},
			{Name: "cachebig", N: tierN(24, 240), Run: c16CacheBig},
			{Name: "cacheconc", N: tierN(2500, 150000), Run: c16CacheConc},
			{Name: "global", N: tierN(300, 5000), Run: c16Global},
		},
	})
}

func quoteLit(s string) (xref.Expr, bool) {
	if strings.Contains(s, "'") && strings.Contains(s, "\"") {
		return nil, false
	}
	return xref.Str{V: s}, true
}

func c16Regex(c *Case) {
	g := c.G()
	d := valueDoc(c.GShared("doc", int64(c.Index/64)))
	ctx := pickCtx(g, d)
	pat := g.RegexTop()
	if g.Chance(0.02) {
		pat = "" // the empty pattern matches the empty string at every position
	}
	subj := g.Subject()
	re, rerr := regexp.Compile(pat)
	pl, _ := quoteLit(pat)
	sl, _ := quoteLit(subj)
	if rerr != nil {
		// a constant pattern that does not compile is rejected by Compile
		src := xref.Render(xref.Call{Name: "matches", Args: []xref.Expr{sl, pl}})
		if ce, err := safeCompile(src); err == nil && ce != nil {
			c.Violation("INVALID-CONSTANT-PATTERN-ACCEPTED", map[string]interface{}{"expr": src, "regexp_error": rerr.Error()})
		} else {
			c.Count("regex:invalid-constant-rejected")
		}
		c.Rep.Evals++
		return
	}
	if g.Chance(0.03) {
		bad := g.Pick("[a", "(", "a{2", "*a", "a**", "(?P<n", "\\", "[z-a]", "a{3,1}", "a)", "x(?", "[[:nope:]]", "\\p{Nope}", "(?z)")
		bl, _ := quoteLit(bad)
		bs := xref.Render(bl)
		ss := xref.Render(sl)
		// the constant pattern in every spelling that is still a constant: parenthesised, double-quoted, with white
		// space around it, inside a predicate; as the pattern of matches() and of replace()
		forms := []string{
			"matches(" + ss + ", " + bs + ")", "matches(" + ss + ", (" + bs + "))", "matches(" + ss + ",((( " + bs + " ))))", "matches(" + ss + " ,\n" + bs + " )",
			"//*[matches(., " + bs + ")]", "not(matches(" + ss + ", (" + bs + ")))", "matches(" + ss + ", " + bs + ") or true()", "string(matches(a, " + bs + "))",
			"//a[matches(., " + bs + ")][1]", "(//a[matches(@h, " + bs + ")])[1]", "//a[matches(., " + bs + ")][@x]/b", "(//a[replace(., " + bs + ", '') = ''])[last()]", "//a[b[matches(., " + bs + ")][2]]",
			"replace(" + ss + ", " + bs + ", 'x')", "replace(" + ss + ", (" + bs + "), 'x')", "//*[replace(., " + bs + ", '') = '']", "concat('a', replace(" + ss + ", ((" + bs + ")), '$1'))",
		}
		if !strings.Contains(bad, "\"") && !strings.Contains(bad, "'") {
			forms = append(forms, "matches("+ss+", \""+bad+"\")", "replace("+ss+", \""+bad+"\", \"\")")
		}
		for _, src := range forms {
			if _, cerr := regexp.Compile(bad); cerr == nil {
				continue
			}
			if ce, err := safeCompile(src); err == nil && ce != nil {
				c.Violation("INVALID-CONSTANT-PATTERN-ACCEPTED", map[string]interface{}{"expr": src})
				return
			}
			c.Count("regex:invalid-constant-rejected")
			c.Rep.Evals++
		}
	}
	var subjE xref.Expr = sl
	if g.Chance(0.25) {
		subjE = g.RelFlat(namesIn(d)) // node-set subject: string-value of the first node
	}
	var e xref.Expr
	if g.Chance(0.5) {
		e = xref.Call{Name: "matches", Args: []xref.Expr{subjE, pl}}
		c.Count("regex:matches")
	} else {
		tl, _ := quoteLit(g.ReplTemplate())
		e = xref.Call{Name: "replace", Args: []xref.Expr{subjE, pl, tl}}
		c.Count("regex:replace")
	}
	want, ok := c.scalarCheck(e, ctx, "ABORT")
	if ok && want != nil {
		if b, isB := want.(bool); (isB && b) || (!isB && re.MatchString(xref.ToString(mustEvalStr(subjE, ctx)))) {
			c.Nontrivial(xref.Render(e))
		}
	}
	c.SampleEvery(6007, func() interface{} {
		return map[string]interface{}{"family": "regex", "expr": xref.Render(e), "value": fmtValue(want)}
	})
}

func mustEvalStr(e xref.Expr, ctx *xdoc.Node) interface{} {
	v, oof := xref.SafeEval(e, xref.NewCtx(ctx))
	if oof != "" {
		return ""
	}
	return v
}

// ---------- cache monitors ----------

type token struct {
	key    string
	serial int64
}

type cacheProbe struct {
	mu       sync.Mutex
	produced map[string]map[int64]bool // key -> serials produced by load(key)
	serial   int64
	loads    int64
	inLoad   int32          // goroutines currently inside load
	overlaps int64          // times a load started while another was in progress
	failures map[string]int // remaining scripted failures per key
	barrier  func()         // called inside load (delay / yield injection)
}

func newProbe() *cacheProbe {
	return &cacheProbe{produced: map[string]map[int64]bool{}, failures: map[string]int{}}
}

var errScripted = errors.New("scripted load failure")

func (p *cacheProbe) load(key interface{}) (interface{}, error) {
	k := key.(string)
	if atomic.AddInt32(&p.inLoad, 1) > 1 {
		atomic.AddInt64(&p.overlaps, 1)
	}
	defer atomic.AddInt32(&p.inLoad, -1)
	atomic.AddInt64(&p.loads, 1)
	if p.barrier != nil {
		p.barrier()
	}
	p.mu.Lock()
	defer p.mu.Unlock()
	if p.failures[k] > 0 {
		p.failures[k]--
		return nil, errScripted
	}
	p.serial++
	if p.produced[k] == nil {
		p.produced[k] = map[int64]bool{}
	}
	p.produced[k][p.serial] = true
	return token{k, p.serial}, nil
}

func (p *cacheProbe) wasProduced(t token) bool {
	p.mu.Lock()
	defer p.mu.Unlock()
	return p.produced[t.key][t.serial]
}

var c16Caps = []int{0, 1, 2, 3, 8}

// c16CacheSeq: one case = (capacity, failure script); it enumerates every key sequence of length <= 6 over 4 keys.
func c16CacheSeq(c *Case) {
	capacity := c16Caps[c.Index%5]
	script := c.Index / 5 // 0: no failures, 1: key a fails once, 2: key b fails twice, 3: every key fails once
	keys := []string{"a", "b", "c", "d"}
	total, resets := 0, 0
	var seq []int
	var run func(depth int) bool
	check := func() bool {
		p := newProbe()
		switch script {
		case 1:
			p.failures["a"] = 1
		case 2:
			p.failures["b"] = 2
		case 3:
			for _, k := range keys {
				p.failures[k] = 1
			}
		}
		expectFail := map[string]int{}
		for k, v := range p.failures {
			expectFail[k] = v
		}
		cache := xpath.NewLoadingCache(p.load, capacity)
		inCache := map[string]bool{} // the model only of what MAY be cached: used for the failure rule
		_ = inCache
		for i, ki := range seq {
			k := keys[ki]
			loadsBefore := atomic.LoadInt64(&p.loads)
			v, err := xpath.VerifCacheGet(cache, k)
			c.Rep.Evals++
			bad := func(kind, what string) bool {
				c.Violation(kind, map[string]interface{}{"capacity": capacity, "keys": seqString(seq, keys), "step": i, "key": k, "observed": what, "failure_script": script})
				return false
			}
			if expectFail[k] > 0 {
				// the load is scripted to fail: get must report the error, and must have tried to load
				if atomic.LoadInt64(&p.loads) == loadsBefore {
					return bad("FAILED-LOAD-ANSWERED-FROM-MEMORY", "get did not call load although every earlier load of this key failed")
				}
				if err == nil || v != nil {
					return bad("LOAD-ERROR-NOT-REPORTED", fmt.Sprintf("value=%v err=%v", v, err))
				}
				expectFail[k]--
				c.Count("cache:failed-load-retried")
			} else {
				if err != nil {
					return bad("ERROR-REMEMBERED-OR-SPURIOUS", fmt.Sprintf("err=%v", err))
				}
				t, ok := v.(token)
				if !ok || t.key != k || !p.wasProduced(t) {
					return bad("VALUE-NOT-PRODUCED-BY-LOAD-OF-THIS-KEY", fmt.Sprintf("%#v", v))
				}
			}
			entries, cp, rs := xpath.VerifCacheStats(cache)
			if cp != capacity {
				return bad("CAPACITY-CHANGED", fmt.Sprint(cp))
			}
			if capacity > 0 && entries > capacity {
				return bad("MORE-ENTRIES-THAN-CAPACITY", fmt.Sprintf("entries=%d", entries))
			}
			if rs > 0 {
				resets++
			}
		}
		total++
		return true
	}
	run = func(depth int) bool {
		if depth > 0 {
			if !check() {
				return false
			}
		}
		if depth == 6 {
			return true
		}
		for k := 0; k < 4; k++ {
			seq = append(seq, k)
			ok := run(depth + 1)
			seq = seq[:len(seq)-1]
			if !ok {
				return false
			}
		}
		return true
	}
	run(0)
	c.CountN("cache:seq", int64(total))
	if resets > 0 {
		c.CountN("cache:reset-observed", int64(resets))
	}
	c.Nontrivial(fmt.Sprintf("seq|%d|%d", capacity, script))
	c.Sample(map[string]interface{}{"family": "cacheseq", "capacity": capacity, "failure_script": script, "key_sequences": total, "sequences_with_reset": resets, "exhaustive": "all sequences of length 1..6 over 4 keys"})
}

func seqString(seq []int, keys []string) string {
	var sb strings.Builder
	for _, k := range seq {
		sb.WriteString(keys[k])
	}
	return sb.String()
}

func c16CacheConc(c *Case) {
	g := c.G()
	capacity := c16Caps[g.Intn(5)]
	nkeys := 2 + g.Intn(5)
	ng := []int{2, 3, 4, 8, 16}[g.Intn(5)]
	p := newProbe()
	// a barrier inside load: the first goroutine to arrive yields until a second one is inside load too
	// (bounded by a number of yields, never by wall-clock time)
	mode := g.Intn(3)
	p.barrier = func() {
		switch mode {
		case 0:
			for i := 0; i < 200 && atomic.LoadInt32(&p.inLoad) < 2; i++ {
				runtime.Gosched()
			}
		case 1:
			runtime.Gosched()
		}
	}
	failKey := ""
	if g.Chance(0.3) {
		failKey = fmt.Sprintf("k%d", g.Intn(nkeys))
		p.failures[failKey] = 1 + g.Intn(3)
	}
	cache := xpath.NewLoadingCache(p.load, capacity)
	var wg sync.WaitGroup
	var stop int32
	var maxEntries, samples int64
	var viol atomic.Value
	report := func(kind, what string) {
		viol.CompareAndSwap(nil, [2]string{kind, what})
	}
	// observer: samples the statistics hook while the workload runs
	obsDone := make(chan struct{})
	go func() {
		defer close(obsDone)
		for atomic.LoadInt32(&stop) == 0 {
			entries, _, _ := xpath.VerifCacheStats(cache)
			atomic.AddInt64(&samples, 1)
			if int64(entries) > atomic.LoadInt64(&maxEntries) {
				atomic.StoreInt64(&maxEntries, int64(entries))
			}
			if capacity > 0 && entries > capacity {
				report("MORE-ENTRIES-THAN-CAPACITY", fmt.Sprintf("observer saw entries=%d capacity=%d", entries, capacity))
			}
			runtime.Gosched()
		}
	}()
	start := make(chan struct{})
	var order []byte
	var omu sync.Mutex
	errsSeen := int64(0)
	for gi := 0; gi < ng; gi++ {
		wg.Add(1)
		n := 20 + g.Intn(41)
		gseed := g.R.Int63()
		go func(gi, n int, gseed int64) {
			defer wg.Done()
			lg := xgen.New(gseed)
			<-start
			for i := 0; i < n; i++ {
				k := fmt.Sprintf("k%d", lg.Intn(nkeys))
				omu.Lock()
				order = append(order, byte(gi))
				omu.Unlock()
				v, err := xpath.VerifCacheGet(cache, k)
				if err != nil {
					if err != errScripted || k != failKey {
						report("ERROR-REMEMBERED-OR-SPURIOUS", fmt.Sprintf("key %s err=%v", k, err))
					}
					atomic.AddInt64(&errsSeen, 1)
					continue
				}
				t, ok := v.(token)
				if !ok || t.key != k || !p.wasProduced(t) {
					report("VALUE-NOT-PRODUCED-BY-LOAD-OF-THIS-KEY", fmt.Sprintf("get(%s) returned %#v", k, v))
				}
				entries, _, _ := xpath.VerifCacheStats(cache)
				if capacity > 0 && entries > capacity {
					report("MORE-ENTRIES-THAN-CAPACITY", fmt.Sprintf("entries=%d capacity=%d", entries, capacity))
				}
			}
		}(gi, n, gseed)
	}
	close(start)
	wg.Wait()
	atomic.StoreInt32(&stop, 1)
	<-obsDone
	c.Rep.Evals += int64(len(order))
	c.Count("cache:concurrent")
	c.CountN("cache:overlapping-loads", atomic.LoadInt64(&p.overlaps))
	c.CountN("cache:observer-samples", atomic.LoadInt64(&samples))
	det := map[string]interface{}{"capacity": capacity, "keys": nkeys, "goroutines": ng, "gets": len(order), "loads": p.loads, "overlapping_loads": p.overlaps, "barrier_mode": mode, "failing_key": failKey}
	if v := viol.Load(); v != nil {
		kv := v.([2]string)
		det["observed"] = kv[1]
		c.Violation(kv[0], det)
		return
	}
	// quiescent checks: bound, and the scripted failures were all consumed by real load attempts (not remembered)
	entries, _, resets := xpath.VerifCacheStats(cache)
	if capacity > 0 && entries > capacity {
		det["observed"] = fmt.Sprintf("entries=%d at quiescence", entries)
		c.Violation("MORE-ENTRIES-THAN-CAPACITY", det)
		return
	}
	if failKey != "" {
		// after the run, the failing key must be loadable: the failure was not remembered
		for i := 0; i < 5; i++ {
			v, err := xpath.VerifCacheGet(cache, failKey)
			if err == nil {
				if t, ok := v.(token); !ok || t.key != failKey {
					det["observed"] = fmt.Sprintf("%#v", v)
					c.Violation("VALUE-NOT-PRODUCED-BY-LOAD-OF-THIS-KEY", det)
					return
				}
				c.Count("cache:failed-load-retried")
				break
			}
			if i == 4 {
				det["observed"] = "key still fails after all scripted failures must have been consumed"
				c.Violation("FAILED-LOAD-REMEMBERED", det)
				return
			}
		}
	}
	if blocks := raceBlocks(newRaceReports()); len(blocks) > 0 {
		det["report"] = blocks[0]
		det["entry_points"] = raceSignature(blocks[0])
		c.Violation("DATA-RACE", det)
		return
	}
	if resets > 0 {
		c.Count("cache:reset-observed")
	}
	if resets > 0 || p.overlaps > 0 {
		h := splitmix64(uint64(len(order)))
		for _, b := range order {
			h = splitmix64(h ^ uint64(b))
		}
		c.Nontrivial(fmt.Sprintf("conc|%d|%d|%d|%x", capacity, nkeys, ng, h))
	}
	c.SampleEvery(499, func() interface{} { return det })
}

// c16Global: a client swaps RegexpCache for its own (custom loader, small capacity) and uses regex functions.
func c16Global(c *Case) {
	g := c.G()
	saved := xpath.RegexpCache
	defer func() { xpath.RegexpCache = saved }()
	capacity := 1 + g.Intn(3)
	var loads int64
	// the client's loader customises the semantics (whole-string, case-insensitive matching) - what the exported variable is for
	custom := xpath.NewLoadingCache(func(key interface{}) (interface{}, error) {
		atomic.AddInt64(&loads, 1)
		return regexp.Compile("(?i)^(?:" + key.(string) + ")$")
	}, capacity)
	d := valueDoc(c.GShared("doc", int64(c.Index/16)))
	var pats []string
	for len(pats) < 5 {
		p := g.RegexTop()
		if _, err := regexp.Compile(p); err == nil && !strings.Contains(p, "'") {
			pats = append(pats, p)
		}
	}
	var exprs []*xpath.Expr
	var asts []xref.Expr
	for _, p := range pats {
		// a non-constant pattern argument (concat) so that the cache is consulted at evaluation time as well
		e := xref.Call{Name: "matches", Args: []xref.Expr{xref.Path{Steps: []*xref.Step{xgen.SelfDot()}}, xref.Str{V: p}}}
		if g.Chance(0.5) {
			e = xref.Call{Name: "replace", Args: []xref.Expr{xref.Path{Steps: []*xref.Step{xgen.SelfDot()}}, xref.Str{V: p}, xref.Str{V: "<$1>"}}}
		}
		ce, err := safeCompile(xref.Render(e))
		if err != nil {
			c.Violation("VALID-PATTERN-REJECTED", map[string]interface{}{"expr": xref.Render(e), "error": err.Error()})
			return
		}
		exprs = append(exprs, ce)
		// the expected value under the client's loader: the same call with (?i) in front of the pattern
		ci := e
		ci.Args = append([]xref.Expr(nil), e.Args...)
		ci.Args[1] = xref.Str{V: "(?i)^(?:" + p + ")$"}
		asts = append(asts, ci)
		// use the pattern through the DEFAULT cache first: nothing of that may survive the swap
		opDigestValue(ce, d.Nodes[g.Intn(len(d.Nodes))])
	}
	xpath.RegexpCache = custom
	// right after the swap, the pattern used LAST through the old cache is used first: nothing remembered
	// outside the cache may answer for it
	for k := len(exprs) - 1; k >= 0; k-- {
		for _, ctx := range []*xdoc.Node{d.Root, d.Nodes[len(d.Nodes)/2]} {
			want, oof := xref.SafeEval(asts[k], xref.NewCtx(ctx))
			if oof != "" {
				continue
			}
			if got := opDigestValue(exprs[k], ctx); got != fmtValue(want) {
				c.Violation("SWAPPED-REGEXPCACHE", map[string]interface{}{"observed": fmt.Sprintf("%s at %s right after the swap: got %s, with the client's loader it is %s", xref.Render(asts[k]), ctx.Label(), got, fmtValue(want)), "capacity": capacity, "patterns": pats})
				return
			}
		}
	}
	if l := atomic.LoadInt64(&loads); l == 0 {
		c.Violation("SWAPPED-REGEXPCACHE", map[string]interface{}{"observed": "the client's loader was never called although every pattern was requested after the swap", "patterns": pats})
		return
	}
	var wg sync.WaitGroup
	var viol atomic.Value
	ng := 1 + g.Intn(6)
	for gi := 0; gi < ng; gi++ {
		wg.Add(1)
		gseed := g.R.Int63()
		go func(gseed int64) {
			defer wg.Done()
			lg := xgen.New(gseed)
			for i := 0; i < 30; i++ {
				k := lg.Intn(len(exprs))
				ctx := d.Nodes[lg.Intn(len(d.Nodes))]
				want, oof := xref.SafeEval(asts[k], xref.NewCtx(ctx))
				if oof != "" {
					continue
				}
				got := opDigestValue(exprs[k], ctx)
				if got != fmtValue(want) {
					viol.CompareAndSwap(nil, fmt.Sprintf("%s at %s: got %s want %s", xref.Render(asts[k]), ctx.Label(), got, fmtValue(want)))
				}
				if entries, _, _ := xpath.VerifCacheStats(xpath.RegexpCache); entries > capacity {
					viol.CompareAndSwap(nil, fmt.Sprintf("swapped RegexpCache holds %d entries, capacity %d", entries, capacity))
				}
			}
		}(gseed)
	}
	wg.Wait()
	c.Rep.Evals += int64(ng * 30)
	c.Count("cache:swapped-global")
	if v := viol.Load(); v != nil {
		c.Violation("SWAPPED-REGEXPCACHE", map[string]interface{}{"observed": v, "capacity": capacity, "patterns": pats})
		return
	}
	if blocks := raceBlocks(newRaceReports()); len(blocks) > 0 {
		c.Violation("DATA-RACE", map[string]interface{}{"report": blocks[0], "entry_points": raceSignature(blocks[0])})
		return
	}
	// a loader may refuse a pattern with an error of its own (a policy, a wrapped error): a CONSTANT pattern the
	// loader refuses is rejected by Compile, whatever the type of the error
	refusing := xpath.NewLoadingCache(func(key interface{}) (interface{}, error) {
		if strings.Contains(key.(string), "b") {
			return nil, fmt.Errorf("pattern policy: %q not allowed", key)
		}
		return regexp.Compile(key.(string))
	}, capacity)
	xpath.RegexpCache = refusing
	for _, src := range []string{"matches(., 'abc')", "//*[matches(@id, 'b+')]", "count(//a[matches(., '^b')]) > 0"} {
		if ce, err := safeCompile(src); err == nil && ce != nil {
			c.Violation("CONSTANT-PATTERN-REFUSED-BY-THE-LOADER-ACCEPTED", map[string]interface{}{"expr": src, "loader": "returns a non-syntax error for patterns containing 'b'"})
			xpath.RegexpCache = saved
			return
		}
		c.Count("regex:invalid-constant-rejected")
	}
	if _, err := safeCompile("matches(., 'a+c')"); err != nil {
		c.Violation("VALID-PATTERN-REJECTED", map[string]interface{}{"expr": "matches(., 'a+c')", "error": err.Error()})
		xpath.RegexpCache = saved
		return
	}
	xpath.RegexpCache = custom
	if atomic.LoadInt64(&loads) > int64(len(pats)) {
		c.Nontrivial(fmt.Sprintf("global|%d|%v", capacity, pats))
	}
	c.SampleEvery(53, func() interface{} {
		return map[string]interface{}{"family": "global", "capacity": capacity, "patterns": pats, "loads": loads, "goroutines": ng}
	})
}

func opDigestValue(ce *xpath.Expr, ctx *xdoc.Node) (s string) {
	defer func() {
		if x := recover(); x != nil {
			s = fmt.Sprintf("PANIC(%v)", x)
		}
	}()
	switch v := ce.Evaluate(xdoc.NewNav(ctx, nil)).(type) {
	case bool:
		return fmt.Sprintf("bool(%v)", v)
	case string:
		return fmt.Sprintf("string(%q)", v)
	case float64:
		return fmt.Sprintf("number(%v)", v)
	default:
		return fmt.Sprintf("%T", v)
	}
}

// c16DynPattern: patterns, subjects and templates come from the document, so one compiled
// expression meets many different patterns during its life.
func c16DynPattern(c *Case) {
	g := c.G()
	d := xdoc.NewDoc()
	r := d.Root.AddElem("", "r", "")
	n := 3 + g.Intn(6)
	for i := 0; i < n; i++ {
		var pat string
		for {
			pat = g.RegexTop()
			if _, err := regexp.Compile(pat); err == nil {
				break
			}
		}
		it := r.AddElem("", "item", "")
		it.AddAttr("", "v", "", g.Subject())
		it.AddAttr("", "p", "", pat)
		it.AddAttr("", "t", "", g.ReplTemplate())
		if g.Chance(0.5) {
			it.AddText(g.Subject())
		}
	}
	d.Finish()
	exprs := []string{
		"//item[matches(@v, string(@p))]",
		"count(//item[matches(@v, string(@p))])",
		"//item[not(matches(., concat(@p, '')))]",
		"//item[replace(@v, string(@p), string(@t)) = @v]",
		"string-join(//item[matches(@v, string(@p))]/@v, '|')",
	}
	for _, src := range exprs {
		ast := mustParse(src)
		want, oof := xref.SafeEval(ast, xref.NewCtx(d.Root))
		if oof != "" {
			continue
		}
		ce := c.compile(src, func() map[string]interface{} { return docDetail(d, d.Root) })
		if ce == nil {
			return
		}
		got := c.RunEvaluate(ce, d.Root)
		c.Count("regex:dynamic-pattern")
		if !sameValue(got, want) {
			dd := docDetail(d, d.Root)
			dd["expr"], dd["expected"], dd["observed"] = src, fmtValue(want), got.String()
			c.Violation("VALUE", dd)
			return
		}
	}
	// one compiled scalar expression evaluated on every item in turn
	for _, src := range []string{"matches(@v, string(@p))", "replace(@v, string(@p), string(@t))", "replace(., string(@p), '<$1>')"} {
		ast := mustParse(src)
		ce := c.compile(src, func() map[string]interface{} { return docDetail(d, d.Root) })
		if ce == nil {
			return
		}
		for _, it := range r.Children {
			want, oof := xref.SafeEval(ast, xref.NewCtx(it))
			if oof != "" {
				continue
			}
			got := c.RunEvaluate(ce, it)
			c.Count("regex:dynamic-pattern")
			if !sameValue(got, want) {
				dd := docDetail(d, it)
				dd["expr"], dd["expected"], dd["observed"] = src, fmtValue(want), got.String()
				c.Violation("VALUE", dd)
				return
			}
		}
	}
	c.Nontrivial(d.XML())
	c.SampleEvery(2003, func() interface{} { return map[string]interface{}{"family": "dynpat", "doc": d.XML(), "exprs": exprs} })
}

// c16CacheBig: the cache at realistic sizes - capacities 64 ... 65536 (the default), 3x as many distinct keys,
// among them keys that differ only in case, in a trailing blank, or after a 2000-byte common prefix; sequential
// and from 8 goroutines. After EVERY get: the value was produced by load(key) of exactly this key, entries <=
// capacity. (A capacity check that compares with a constant, a key that is shortened or folded before the lookup,
// an eviction that keeps a stale half - none of them shows with four keys and capacity 8.)
var c16BigCaps = []int{64, 255, 256, 1000, 4096, 65536}

func c16CacheBig(c *Case) {
	capacity := c16BigCaps[c.Index%len(c16BigCaps)]
	if capacity > 5000 && c.Tier != "thorough" && c.Index >= len(c16BigCaps) {
		capacity = 1000 // the default capacity once per quick run, every time in the thorough tier
	}
	concurrent := (c.Index/len(c16BigCaps))%2 == 1
	g := c.G()
	nkeys := 3*capacity + 7
	long := strings.Repeat("k", 2000)
	keys := make([]string, nkeys)
	for i := range keys {
		switch i % 11 {
		case 0:
			keys[i] = fmt.Sprintf("%s%d", long, i)
		case 1:
			keys[i] = fmt.Sprintf("Key%d", i-1+2) // differs from the next kind only in case
		case 2:
			keys[i] = fmt.Sprintf("key%d", i+1)
		case 3:
			keys[i] = fmt.Sprintf("key%d ", i) // trailing blank
		default:
			keys[i] = fmt.Sprintf("key%d", i)
		}
	}
	p := newProbe()
	cache := xpath.NewLoadingCache(p.load, capacity)
	var viol atomic.Value
	fail := func(kind, what string, k string) {
		show := k
		if len(show) > 60 {
			show = show[:20] + fmt.Sprintf("...(%d bytes)...", len(k)) + show[len(show)-12:]
		}
		viol.CompareAndSwap(nil, [3]string{kind, what, show})
	}
	gets := 6 * nkeys
	if gets > 250000 {
		gets = 250000
	}
	worker := func(wg *xgen.G, n int) {
		hot := wg.Intn(nkeys)
		for i := 0; i < n && viol.Load() == nil; i++ {
			ki := wg.Intn(nkeys)
			if wg.Chance(0.5) {
				ki = (hot + wg.Intn(capacity/2+1)) % nkeys // a working set that fits: hits as well as misses
			}
			k := keys[ki]
			v, err := xpath.VerifCacheGet(cache, k)
			if err != nil {
				fail("ERROR-REMEMBERED-OR-SPURIOUS", fmt.Sprint(err), k)
				return
			}
			t, ok := v.(token)
			if !ok || t.key != k || !p.wasProduced(t) {
				fail("VALUE-NOT-PRODUCED-BY-LOAD-OF-THIS-KEY", fmt.Sprintf("got the value loaded for %.40q", fmt.Sprint(v)), k)
				return
			}
			if entries, cp, _ := xpath.VerifCacheStats(cache); cp != capacity || entries > capacity {
				fail("MORE-ENTRIES-THAN-CAPACITY", fmt.Sprintf("entries=%d capacity=%d (configured %d)", entries, cp, capacity), k)
				return
			}
		}
	}
	if concurrent {
		var wg sync.WaitGroup
		for w := 0; w < 8; w++ {
			wg.Add(1)
			go func(w int) {
				defer wg.Done()
				worker(c.G(int64(w)+100), gets/8)
			}(w)
		}
		wg.Wait()
		c.Count("cachebig:concurrent")
	} else {
		worker(g, gets)
		c.Count("cachebig:sequential")
	}
	c.Rep.Evals += int64(gets)
	if v := viol.Load(); v != nil {
		x := v.([3]string)
		c.Violation(x[0], map[string]interface{}{"capacity": capacity, "distinct_keys": nkeys, "key": x[2], "observed": x[1], "concurrent": concurrent})
		return
	}
	entries, _, resets := xpath.VerifCacheStats(cache)
	if resets > 0 {
		c.Count("cachebig:capacity-reached")
	}
	c.Nontrivial(fmt.Sprintf("cachebig|%d|%v|%d", capacity, concurrent, c.Index))
	c.Sample(map[string]interface{}{"family": "cachebig", "capacity": capacity, "distinct_keys": nkeys, "gets": gets, "concurrent": concurrent, "entries_at_end": entries, "resets": resets, "loads": atomic.LoadInt64(&p.loads)})
}

// c16Escapes: EVERY printable ASCII character behind a back-slash - alone, after a literal, inside a class, after
// an escaped back-slash, after two of them - as a constant pattern of matches() and replace(). Go's regexp decides
// what each one means: a pattern it rejects must be rejected by Compile, a pattern it accepts must match and
// replace exactly as Go does (subjects contain the character, the back-slash, letters, digits, '_', '.', ':').
// An escape the engine translates on its own (\i, \c of XML Schema, \Q..\E, octal, back references) shows here.
func c16Escapes(c *Case) {
	ch := string(rune(33 + c.Index))
	d := valueDoc(c.GShared("gdoc", 0))
	ctx := d.Root
	subjects := []string{ch, "\\" + ch, "a" + ch, "a\\" + ch, "ab", "a_b:c.d-9", " ", "\\", "A" + ch + "Z", "é", "aa\\\\" + ch}
	for _, pat := range []string{"\\" + ch, "a\\" + ch, "[\\" + ch + "]", "\\\\" + ch, "a\\\\" + ch + "+", "\\\\\\" + ch, "(\\" + ch + ")+", "[^\\" + ch + "]"} {
		pl, ok := quoteLit(pat)
		if !ok {
			continue
		}
		_, rerr := regexp.Compile(pat)
		for _, s := range subjects {
			sl, ok2 := quoteLit(s)
			if !ok2 {
				continue
			}
			exprs := []xref.Expr{xref.Call{Name: "matches", Args: []xref.Expr{sl, pl}}, xref.Call{Name: "replace", Args: []xref.Expr{sl, pl, xref.Str{V: "<$1>"}}}}
			if rerr != nil {
				for _, e := range exprs {
					src := xref.Render(e)
					if ce, err := safeCompile(src); err == nil && ce != nil {
						c.Violation("INVALID-CONSTANT-PATTERN-ACCEPTED", map[string]interface{}{"expr": src, "regexp_error": rerr.Error()})
						return
					}
					c.Count("regex:invalid-constant-rejected")
					c.Rep.Evals++
				}
				break // one subject is enough for a rejection
			}
			for _, e := range exprs {
				if _, good := c.scalarCheck(e, ctx, "ABORT"); !good {
					return
				}
				c.Count("regex:escape-differential")
			}
		}
	}
	c.Nontrivial("escape|" + ch)
	c.Sample(map[string]interface{}{"family": "escapes", "character": ch})
}
