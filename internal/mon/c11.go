package mon

import (
	"fmt"
	"strings"
	"sync"

	"verif/internal/xdoc"
	"verif/internal/xgen"
	"verif/internal/xref"
)

// C11 - union yields the set union, each node exactly once.
//
// Oracle: the delivery sequence of A | B (and of p/(a, b)) as a MULTISET equals the
// reference set union: nothing missing, nothing extra, nothing twice.

func init() {
	Register(&Monitor{
		ID:    "C11",
		Level: "exploration",
		Rule: "directed identity search: for every pair of distinct nodes (elements, attributes, text, comments) of each hostile-name document (names a, a-1, a-1-1, a-1-2, b1, a.b, a1; repeated names and values; same text at several depths) and of wide documents whose same-named siblings have two-digit positions on several levels the union of the two absolute paths addressing exactly those nodes must deliver 2 nodes; " +
			"the same pair search and a list of identity-sensitive expressions (ancestor steps, unions, positional access) on documents with 300 / 1100 (thorough: also 66000) same-named siblings, as many attributes on one element and a chain of as many nested elements - positions that do not fit a byte (or a 16-bit word); " +
			"plus seeded random unions of two or three predicate-free paths of 1-3 steps over all axes (overlapping and disjoint operands, attributes/text/comments, nested unions, the sequence form p/(a, b)). Non-trivial: both operands non-empty; distinct by (expression text, document, context).",
		Assume:        []string{"reference evaluator internal/xref; node identity in the harness is pointer identity"},
		MinNontrivial: tierN(6000, 80000),
		Required:      []string{},
		Families: []Family{
			witnessFamily("C11"),
			{Name: "pairs", N: tierN(240, 6000), Run: c11Pairs},
			{Name: "big", N: tierN(40, 120), Run: c11Big},
			{CPUBudget: 900, Name: "hugeunion", N: func(string) int { return 1 }, Run: c11HugeUnion}, // (20 s quick, 90 s thorough on this machine)
			{Name: "radix", N: func(string) int { return 3 }, Run: c11Radix},
			{Name: "seqlists", N: func(string) int { return 6 + 36 + 216 + 1296 }, Run: c11SeqLists},
			{Name: "rand", N: tierN(150000, 8000000), Run: c11Random},
		},
	})
}

// hostileTree: names containing '-' and digits, repeated values, same text at several depths.
func hostileTree(g *xgen.G) *xdoc.Doc {
	if g.Intn(6) == 0 {
		return g.NameLikeTree(xgen.HostileNames)
	}
	o := xgen.DefaultTree()
	o.Names = xgen.HostileNames
	o.TextVals = []string{"1", "a-1", "1-1", "a", "x", "2", "a=1", "-1"}
	o.AttrVals = []string{"1", "a-1", "1-1", "", "2-1"}
	o.MaxDepth = 3 + g.Intn(3)
	return g.Tree(o)
}

// addrPath builds an absolute path addressing exactly node n by child positions (node()[k]) and @name.
func addrPath(n *xdoc.Node) xref.Path {
	var steps []*xref.Step
	for m := n; m.Parent != nil; m = m.Parent {
		var s *xref.Step
		if m.Kind == xdoc.Attr {
			s = &xref.Step{Axis: "attribute", Abbrev: "@", Test: xref.Test{Kind: "name", Prefix: m.Prefix, Local: m.Name}}
		} else {
			s = &xref.Step{Axis: "child", Abbrev: "child", Test: xref.Test{Kind: "node"}, Preds: []xref.Expr{xref.Num{Lex: fmt.Sprint(m.Idx + 1)}}}
		}
		steps = append([]*xref.Step{s}, steps...)
	}
	return xref.Path{Abs: true, Steps: steps}
}

func multisetCheck(c *Case, src string, ctx *xdoc.Node, got SelResult, want xref.NodeSet) bool {
	gs, dup := AsSet(got.Nodes)
	if dup || !SameNodes(gs, want) {
		dd := docDetail(ctx.Doc, ctx)
		dd["expr"] = src
		dd["expected"] = xdoc.Labels(want)
		dd["observed_sequence"] = xdoc.Labels(got.Nodes)
		if dup {
			c.Violation("NODE-DELIVERED-TWICE", dd)
		} else {
			c.Violation("MULTISET", dd)
		}
		return false
	}
	return true
}

// longLabelTree: names and values of 33 ... 300 bytes that agree in a long prefix or in a long suffix - attributes of
// ONE element (their position path is the same: only the label tells them apart), sibling elements, text and comment
// nodes; an identity key that looks at a bounded part of a label, or hashes it weakly, confuses them.
func longLabelTree(g *xgen.G) *xdoc.Doc {
	d := xdoc.NewDoc()
	r := d.Root.AddElem("", "r", "")
	stem := "data-analytics-tracking-category-" + strings.Repeat("x", g.Intn(3)*100)
	tail := "-suffix-shared-by-all-of-these-labels-0123456789"
	for k := 0; k < 2; k++ {
		e := r.AddElem("", "e", "")
		for _, nm := range []string{stem + "primary", stem + "secondary", stem + "primarz", "a" + tail, "b" + tail, stem, stem + "p", "id"} {
			e.AddAttr("", nm, "", "v")
		}
		f := r.AddElem("", stem+"e", "")
		for i, v := range []string{stem + "1", stem + "2", "1" + tail, "2" + tail} {
			f.AddAttr("", fmt.Sprintf("k%d", i), "", v) // short names, long values
			f.AddElem("", stem+fmt.Sprint(i), "").AddText(stem + fmt.Sprint(i%2))
			f.AddComment(stem + fmt.Sprint(i%2))
			f.AddText(v)
		}
	}
	return d.Finish()
}

func c11Pairs(c *Case) {
	d := hostileTree(c.G())
	limit := 40
	if c.Tier == "thorough" {
		limit = 70
	}
	if c.Index%4 == 1 {
		d = longLabelTree(c.G())
		limit = 70
	}
	if c.Index%4 == 3 {
		// same-named siblings with two-digit positions on several levels
		d = c.G().DigitTree()
		limit = 90
	}
	nodes := d.Nodes // including the root node, addressed by "/"
	if len(nodes) > limit {
		nodes = nodes[:limit]
	}
	for i, n1 := range nodes {
		for _, n2 := range nodes[i+1:] {
			e := xref.Bin{Op: "|", L: addrPath(n1), R: addrPath(n2)}
			src := xref.Render(e)
			ce := c.compile(src, func() map[string]interface{} { return docDetail(d, d.Root) })
			if ce == nil {
				return
			}
			want := xref.SortUniq(xref.NodeSet{n1, n2})
			// the addressing paths themselves must denote exactly n1 and n2 (reference self-check)
			if rw, ok, _ := refNodeSet(e, xref.NewCtx(d.Root)); !ok || !SameNodes(rw, want) {
				panic("C11: addressing paths do not denote the node pair: " + src)
			}
			got := c.RunSelect(ce, d.Root)
			if got.Aborted() {
				dd := docDetail(d, d.Root)
				dd["expr"] = src
				dd["observed"] = fmt.Sprint(got.Panic.String(), " budget=", got.Budget)
				c.Violation("ABORT", dd)
				return
			}
			if !multisetCheck(c, src, d.Root, got, want) {
				return
			}
			c.Nontrivial(fmt.Sprintf("%s|%d", src, c.Index))
		}
	}
	c.recordShape("unionQuery")
	c.SampleEvery(17, func() interface{} {
		return map[string]interface{}{"family": "pairs", "doc": d.XML(), "pairs": len(nodes) * (len(nodes) - 1) / 2}
	})
}

func c11Random(c *Case) {
	g := c.G()
	dg := c.GShared("doc", int64(c.Index/8))
	var d *xdoc.Doc
	if dg.Chance(0.7) {
		d = hostileTree(dg)
	} else {
		d = dg.Tree(xgen.DefaultTree())
	}
	names := namesIn(d)
	ctx := d.Nodes[g.Intn(len(d.Nodes))]
	if g.Chance(0.4) {
		ctx = d.Root
	}
	l := g.FreePath(1+g.Intn(3), names)
	r := g.FreePath(1+g.Intn(3), names)
	var e xref.Expr = xref.Bin{Op: "|", L: l, R: r}
	setOnly := false // a step applied AFTER a union may deliver a node once per derivation; only the union itself is held to "each once"
	switch g.Intn(6) {
	case 0: // nested union, three to six operands, grouped to the left or to the right
		e = xref.Bin{Op: "|", L: e, R: g.FreePath(1+g.Intn(2), names)}
		for k := 0; k < 3 && g.Chance(0.4); k++ {
			if g.Chance(0.5) {
				e = xref.Bin{Op: "|", L: e, R: g.FreePath(1+g.Intn(2), names)}
			} else {
				e = xref.Bin{Op: "|", L: g.FreePath(1+g.Intn(2), names), R: xref.Group{X: e}}
			}
		}
	case 1: // overlapping by construction: B extends or equals A
		e = xref.Bin{Op: "|", L: l, R: l}
	case 2: // sequence form p/(a, b)
		alt := func() *xref.Step {
			s := g.FreeStep(names)
			if s.Abbrev == "." || s.Abbrev == ".." {
				s.Abbrev = ""
			}
			return s
		}
		p := g.FreePath(1+g.Intn(2), names)
		seq := []*xref.Step{alt(), alt()}
		for len(seq) < 6 && g.Chance(0.4) {
			seq = append(seq, alt()) // p/(a, b, c, ...): every listed step contributes
		}
		p.Steps = append(p.Steps, &xref.Step{Seq: seq})
		if g.Chance(0.3) {
			p.Steps = append(p.Steps, g.FreeStep(names))
			setOnly = true
		}
		e = p
	case 4: // a union as a predicate of a step with several candidates: it is re-evaluated for each of them
		rl, rr := g.RelFreePath(1+g.Intn(2), names), g.RelFreePath(1+g.Intn(2), names)
		var pred xref.Expr = xref.Bin{Op: "|", L: rl, R: rr}
		if g.Chance(0.5) {
			// two to four operands, absolute and relative ones mixed in any position, grouped to the left or to the
			// right: an operand that depends on the candidate must be evaluated for every candidate, whatever its
			// neighbours are; used as a boolean, negated, or compared with a value that occurs in the document
			operand := func() xref.Expr {
				q := g.FreePath(1+g.Intn(2), names)
				q.Abs = g.Chance(0.5)
				if !q.Abs && q.Steps[0].Abbrev == "//" {
					q.Steps = append([]*xref.Step{xgen.SelfDot()}, q.Steps...)
				}
				return q
			}
			pred = xref.Bin{Op: "|", L: operand(), R: operand()}
			for k := 0; k < 2 && g.Chance(0.6); k++ {
				if g.Chance(0.7) {
					pred = xref.Bin{Op: "|", L: pred, R: operand()}
				} else {
					pred = xref.Bin{Op: "|", L: operand(), R: xref.Group{X: pred}}
				}
			}
			if g.Chance(0.5) {
				vals := []string{}
				for _, n := range d.Nodes {
					if n.Kind == xdoc.Text || n.Kind == xdoc.Attr {
						vals = append(vals, n.Data)
					}
				}
				if len(vals) > 0 {
					pred = xref.Bin{Op: g.Pick("=", "=", "!="), L: pred, R: xref.Str{V: vals[g.Intn(len(vals))]}}
				}
			}
		}
		if g.Chance(0.3) {
			pred = xref.Call{Name: "not", Args: []xref.Expr{pred}}
		} else if g.Chance(0.3) {
			pred = xref.Bin{Op: ">", L: xref.Call{Name: "count", Args: []xref.Expr{xref.Bin{Op: "|", L: g.RelFlat(names), R: g.RelFlat(names)}}}, R: xref.Num{Lex: "1"}}
		}
		e = xref.Path{Abs: true, Steps: []*xref.Step{xgen.DSlash(), {Axis: "child", Abbrev: "child", Test: xref.Test{Kind: "*"}, Preds: []xref.Expr{pred}}}}
		setOnly = true
	case 3: // union as the start of a path
		e = xref.Path{Start: xref.Group{X: e}, Steps: []*xref.Step{g.FreeStep(names)}}
		setOnly = true
	}
	if c.expensive(e, d) {
		return
	}
	src := xref.Render(e)
	want, ok, why := refNodeSet(e, xref.NewCtx(ctx))
	if !ok {
		c.Skip("out-of-fragment: " + why)
		return
	}
	ce := c.compile(src, func() map[string]interface{} { return docDetail(d, ctx) })
	if ce == nil {
		return
	}
	c.recordShape(queryShape(ce))
	got := c.RunSelect(ce, ctx)
	if got.Aborted() {
		dd := docDetail(d, ctx)
		dd["expr"] = src
		dd["observed"] = fmt.Sprint(got.Panic.String(), " budget=", got.Budget)
		c.Violation("ABORT", dd)
		return
	}
	if setOnly {
		gs, _ := AsSet(got.Nodes)
		if !SameNodes(gs, want) {
			dd := docDetail(d, ctx)
			dd["expr"] = src
			dd["expected"] = xdoc.Labels(want)
			dd["observed_sequence"] = xdoc.Labels(got.Nodes)
			c.Violation("SET", dd)
		}
	} else if !multisetCheck(c, src, ctx, got, want) {
		return
	}
	if b, isBin := e.(xref.Bin); isBin {
		ln, _, _ := refNodeSet(b.L, xref.NewCtx(ctx))
		rn, _, _ := refNodeSet(b.R, xref.NewCtx(ctx))
		if len(ln) > 0 && len(rn) > 0 {
			c.Nontrivial(fmt.Sprintf("%s|%d|%d", src, c.Index/8, ctx.Ord))
		}
	} else if len(want) > 0 {
		c.Nontrivial(fmt.Sprintf("%s|%d|%d", src, c.Index/8, ctx.Ord))
	}
	c.SampleEvery(4001, func() interface{} {
		return map[string]interface{}{"family": "rand", "expr": src, "ctx": ctx.Label(), "doc": d.XML(), "union": xdoc.Labels(want)}
	})
}

var (
	bigMu   sync.Mutex
	bigDocs = map[int]*xdoc.Doc{}
)

func bigDoc(fan int) *xdoc.Doc {
	bigMu.Lock()
	defer bigMu.Unlock()
	if d, ok := bigDocs[fan]; ok {
		return d
	}
	d := xgen.BigTree(fan)
	bigDocs[fan] = d
	return d
}

var c11BigExprs = []string{
	"//sub/ancestor::item", "//sub/..", "/r/list/item[257]", "count(/r/list/item)", "//item[last()]", "/r/attrs/@*", "count(/r/attrs/@*)", "/r/attrs/@a257 | /r/attrs/@a1",
	"//n[not(n)]/ancestor::n", "count(//n)", "count(/r/deep/descendant::n)", "count(//n[not(n)]/ancestor-or-self::*)", "count(/r/deep//text())", "//n[not(n)]/text()", "count(/descendant-or-self::node())", "/r/list/item[last()]/following::n[not(n)]", "(//item)[300]", "/r/list/item[position() > 255][1]", "//item[sub][3]", "//item[sub]/sub[1] | //item[sub]/sub[2]",
	"/r/list/item[1] | /r/list/item[257]", "/r/list/item | /r/list/item[position() > 250]", "count(/r/list/item[1]/following-sibling::item)",
	"//text()[. = 'bottom']/ancestor::*", "count(//text()[. = 'bottom']/ancestor::n)", "//n[count(ancestor::n) = 256]", "/r/list/node()[300] | /r/list/node()[44]", "count(//item/sub/ancestor::*)",
	"//item[position() = 256 or position() = 257 or position() = 1]", "count(/r/deep//n[not(n)]/ancestor-or-self::n)",
}

// c11Big: node pairs whose sibling positions differ by 256 / 65536 (and neighbours), and identity-sensitive
// expressions, on documents with very long sibling lists, attribute lists and ancestor chains.
func c11Big(c *Case) {
	fan := 300
	if c.Index%3 == 2 {
		fan = 1100 // beyond 1024 in every dimension (depth of the nested chain included)
	}
	if c.Tier == "thorough" && c.Index%4 == 3 {
		fan = 66000
	}
	d := bigDoc(fan)
	g := c.G()
	list := d.Root.Children[0].Children[0]
	attrs := d.Root.Children[0].Children[1]
	var items []*xdoc.Node
	for _, n := range list.Children {
		if n.Kind == xdoc.Element {
			items = append(items, n)
		}
	}
	check := func(n1, n2 *xdoc.Node) bool {
		e := xref.Bin{Op: "|", L: addrPath(n1), R: addrPath(n2)}
		src := xref.Render(e)
		ce := c.compile(src, func() map[string]interface{} { return map[string]interface{}{"doc": fmt.Sprintf("BigTree(%d)", fan)} })
		if ce == nil {
			return false
		}
		got := c.RunSelect(ce, d.Root)
		want := xref.SortUniq(xref.NodeSet{n1, n2})
		gs, dup := AsSet(got.Nodes)
		if got.Aborted() || dup || !SameNodes(gs, want) {
			c.Violation("TWO-NODES-TREATED-AS-ONE", map[string]interface{}{"doc": fmt.Sprintf("xgen.BigTree(%d): /r/list with %d item children, /r/attrs with %d attributes, /r/deep with %d nested n", fan, fan, fan, fan),
				"expr": src, "expected": xdoc.Labels(want), "observed_sequence": xdoc.Labels(got.Nodes), "abort": fmt.Sprint(got.Panic.String(), got.Budget)})
			return false
		}
		c.Nontrivial(fmt.Sprintf("big|%d|%s", fan, src))
		return true
	}
	for k := 0; k < 12; k++ {
		i := g.Intn(len(items))
		for _, delta := range []int{256, 512, 255, 257, 65536, 65535, 1} {
			j := i + delta
			if j >= len(items) {
				j = i - delta
			}
			if j < 0 || j >= len(items) || j == i {
				continue
			}
			if !check(items[i], items[j]) {
				return
			}
			// their children with equal local paths
			if len(items[i].Children) > 0 && len(items[j].Children) > 0 && !check(items[i].Children[0], items[j].Children[0]) {
				return
			}
		}
		a := g.Intn(len(attrs.Attrs))
		if b := a + 256; b < len(attrs.Attrs) && !check(attrs.Attrs[a], attrs.Attrs[b]) {
			return
		}
	}
	// the chain of nested elements: depth i and i+256
	chain := []*xdoc.Node{}
	for n := d.Root.Children[0].Children[2]; len(n.Children) > 0 && n.Children[0].Kind == xdoc.Element; n = n.Children[0] {
		chain = append(chain, n.Children[0])
		if len(chain) > 600 {
			break
		}
	}
	// (address paths of at most ~300 steps: a longer path is legitimately "too complex" for the engine's builder)
	if len(chain) > 290 {
		i := g.Intn(30)
		if !check(chain[i], chain[i+256]) {
			return
		}
	}
	if fan > 2000 {
		return // the expression list is evaluated on the 300- and 1100-fan documents only (cost)
	}
	src := c11BigExprs[c.Index%len(c11BigExprs)]
	ast := mustParse(src)
	want, oof := xref.SafeEval(ast, xref.NewCtx(d.Root))
	if oof != "" {
		panic("C11 big: reference: " + oof)
	}
	ce := c.compile(src, func() map[string]interface{} { return map[string]interface{}{} })
	if ce == nil {
		return
	}
	got := c.RunEvaluate(ce, d.Root)
	if !sameValue(got, want) {
		exp := fmtValue(want)
		if len(exp) > 600 {
			exp = exp[:600] + "..."
		}
		obs := got.String()
		if len(obs) > 600 {
			obs = obs[:600] + "..."
		}
		c.Violation("BIG-DOCUMENT", map[string]interface{}{"doc": fmt.Sprintf("xgen.BigTree(%d)", fan), "expr": src, "expected": exp, "observed": obs})
		return
	}
	c.SampleEvery(7, func() interface{} {
		return map[string]interface{}{"family": "big", "fan": fan, "expr": src, "pairs_with_position_delta": []int{256, 512, 255, 257, 65536}}
	})
}

// c11SeqLists: EVERY list of 1-4 steps drawn from six step forms in the sequence form p/(s1, ..., sk), under
// three prefixes, on a document where each form selects nodes that no other form selects (and two forms overlap):
// the delivery must be the union of the k single-step paths, each node once.
var c11SeqDoc = xdoc.MustParseXML(`<r><e x="1"><a/>t<b/><c/><a/><!--k--><d><a/></d></e><e><b/><c y="2"/></e><f><a/><c/></f></r>`, false)
var c11SeqForms = []string{"a", "b", "c", "@x", "text()", "*"}

func c11SeqLists(c *Case) {
	i := c.Index
	var list []string
	for n, size := 1, 6; n <= 4; n, size = n+1, size*6 {
		if i < size {
			for k := 0; k < n; k++ {
				list = append(list, c11SeqForms[i%6])
				i /= 6
			}
			break
		}
		i -= size
	}
	for _, prefix := range []string{"//e", "/r/e", "/r/*"} {
		src := prefix + "/(" + strings.Join(list, ", ") + ")"
		ast := mustParse(src)
		want, ok, why := refNodeSet(ast, xref.NewCtx(c11SeqDoc.Root))
		if !ok {
			panic("C11 seqlists: " + why)
		}
		ce := c.compile(src, func() map[string]interface{} { return docDetail(c11SeqDoc, c11SeqDoc.Root) })
		if ce == nil {
			return
		}
		got := c.RunSelect(ce, c11SeqDoc.Root)
		gs, dup := AsSet(got.Nodes)
		if got.Aborted() || dup || !SameNodes(gs, want) {
			dd := docDetail(c11SeqDoc, c11SeqDoc.Root)
			dd["expr"], dd["expected"], dd["observed_sequence"], dd["abort"] = src, xdoc.Labels(want), xdoc.Labels(got.Nodes), fmt.Sprint(got.Panic.String(), got.Budget)
			c.Violation("SEQUENCE-FORM-IS-NOT-THE-UNION-OF-ITS-STEPS", dd)
			return
		}
		c.Count("seqlists")
		if len(list) >= 2 && len(want) > 0 {
			c.Nontrivial("seq|" + src)
		}
	}
	c.SampleEvery(97, func() interface{} { return map[string]interface{}{"family": "seqlists", "steps": list} })
}

// c11HugeUnion: unions with far more than 2^16 members whose identity keys vary (17 names, numbered text values):
// an identity key of too few bits, or a table that degrades with size, loses nodes only here. The expected counts
// are known by construction; every delivered node must be distinct.
func c11HugeUnion(c *Case) {
	rows, cols := 300, 300
	if c.Tier == "thorough" {
		rows, cols = 500, 400
	}
	d := xdoc.NewDoc()
	r := d.Root.AddElem("", "r", "")
	names := []string{"a", "b", "c", "d", "e", "f", "g", "h", "i", "j", "k", "l", "m", "n", "o", "p", "q"}
	for i := 0; i < rows; i++ {
		row := r.AddElem("", names[i%len(names)], "")
		for j := 0; j < cols; j++ {
			row.AddElem("", names[(i*7+j)%len(names)], "").AddText(fmt.Sprintf("t%d.%d", i, j%97))
		}
	}
	d.Finish()
	elems, texts := 1+rows+rows*cols, rows*cols
	for _, ex := range []struct {
		src  string
		want int
	}{{"//* | //text()", elems + texts}, {"//node() | //node()", elems + texts}, {"//text() | //*/*/..", texts + rows + 1}, {"/r/*/* | /r/* | /r", elems}} {
		if c.Tier != "thorough" && ex.src == "//node() | //node()" {
			continue // (1.1e8 navigator operations: thorough tier only)
		}
		ce := c.compile(ex.src, func() map[string]interface{} { return map[string]interface{}{} })
		if ce == nil {
			return
		}
		got := c.RunSelectLimit(ce, d.Root, 20*OpLimit) // legitimate cost 6e7 ... 3e8 operations: a budget of 4e9
		gs, dup := AsSet(got.Nodes)
		c.Count("hugeunion")
		if got.Aborted() || dup || len(gs) != ex.want {
			c.Violation("TWO-NODES-TREATED-AS-ONE", map[string]interface{}{"doc": fmt.Sprintf("<r> with %d rows of %d elements (17 names), one numbered text node each: %d elements, %d text nodes", rows, cols, elems, texts),
				"expr": ex.src, "expected_count": ex.want, "observed_distinct": len(gs), "observed_deliveries": len(got.Nodes), "duplicates": dup, "abort": fmt.Sprint(got.Panic.String(), got.Budget)})
			return
		}
		c.Nontrivial("hugeunion|" + ex.src)
	}
	c.Sample(map[string]interface{}{"family": "hugeunion", "nodes": elems + texts + 1})
}

// c11Radix: equally labelled nodes at EVERY combination of sibling positions 1..70 on two adjacent levels (and 1..36
// on three): an identity that folds the position path arithmetically (code*B + position, for any base B up to the
// fan-out) maps (i, j+B) and (i+1, j) to one value; a rendered key without separators confuses (1,11) and (11,1).
// All such pairs are present at once; the union must deliver every node, each once.
func c11Radix(c *Case) {
	d := xdoc.NewDoc()
	r := d.Root.AddElem("", "r", "")
	var exprs []string
	switch c.Index {
	case 0: // two levels, empty same-named leaves
		for i := 0; i < 70; i++ {
			p := r.AddElem("", "p", "")
			for j := 0; j < 70; j++ {
				p.AddElem("", "b", "")
			}
		}
		exprs = []string{"//b | //b", "/r/p/b | //b[1]", "//b[position() mod 2 = 0] | //b[position() mod 2 = 1]", "/r/p/(b, b)", "//p | //b"}
	case 1: // three levels, same text under every leaf
		for i := 0; i < 36; i++ {
			p := r.AddElem("", "p", "")
			for j := 0; j < 36; j++ {
				q := p.AddElem("", "q", "")
				for k := 0; k < 3; k++ {
					q.AddElem("", "b", "").AddText("x")
				}
			}
		}
		exprs = []string{"//b | //b", "//text() | //b/text()", "//q/b[1] | //q/b[2] | //q/b[3]", "/r/p/q/(b, b)", "//q | //b/text()"}
	default: // text and comment runs directly below 70 parents
		for i := 0; i < 70; i++ {
			p := r.AddElem("", "p", "")
			for j := 0; j < 35; j++ {
				p.AddText("x")
				p.AddComment("x")
			}
		}
		exprs = []string{"//text() | //text()", "//comment() | //p/comment()", "//p/node() | //text()", "/r/p/(text(), comment())"}
	}
	d.Finish()
	for _, src := range exprs {
		ast := mustParse(src)
		want, ok, why := refNodeSet(ast, xref.NewCtx(d.Root))
		if !ok {
			panic("C11 radix: reference: " + why + " on " + src)
		}
		ce := c.compile(src, func() map[string]interface{} { return map[string]interface{}{"doc": fmt.Sprintf("radix document %d", c.Index)} })
		if ce == nil {
			return
		}
		got := c.RunSelect(ce, d.Root)
		gs, dup := AsSet(got.Nodes)
		if got.Aborted() || dup || !SameNodes(gs, want) {
			obs := xdoc.Labels(got.Nodes)
			if len(obs) > 400 {
				obs = obs[:400] + "..."
			}
			c.Violation("EQUALLY-LABELLED-NODES-TREATED-AS-ONE", map[string]interface{}{"doc": fmt.Sprintf("radix document %d (equally labelled nodes at all sibling positions 1..70 x 1..70 / 1..36 x 1..36 x 1..3)", c.Index),
				"expr": src, "expected_count": len(want), "observed_count": len(got.Nodes), "observed_distinct": len(gs), "observed_sequence": obs, "abort": fmt.Sprint(got.Panic.String(), got.Budget)})
			return
		}
		c.Count("radix")
		c.Nontrivial(fmt.Sprintf("radix|%d|%s", c.Index, src))
	}
	c.SampleEvery(1, func() interface{} {
		return map[string]interface{}{"family": "radix", "document": c.Index, "nodes": len(d.Nodes), "exprs": exprs}
	})
}
