package mon

import (
	"fmt"
	"sort"
	"strings"

	"verif/internal/xdoc"
	"verif/internal/xgen"
	"verif/internal/xref"
)

// ---------------------------------------------------------------------------
// C15 - a compiled expression never fails with a Go runtime error.
//
// Oracle: recover() around Select/Evaluate classifies the panic value: a runtime.Error (nil
// dereference, index/slice bounds, integer divide, failed type assertion) is a violation, an
// error/string value created by the package is a deliberate abort and allowed; the navigator
// op budget decides termination; Evaluate's dynamic result type must be documented.

func init() {
	Register(&Monitor{
		ID:    "C15",
		Level: "exploration",
		Rule: "token-level generated expression texts that ignore typing: any of the 31 function names with 0-4 arguments of any kind, all 13 axis names incl. namespace, variables, every operator between arbitrary operands, predicates and steps applied to non-node-set primaries, zero-argument forms; only texts Compile accepts are executed, each through Select (drained) and Evaluate (node-set results drained) on documents with hostile values, from element, attribute, text, comment and root contexts. round() is generated like every other function; an Evaluate result of Go type int whose top-level call is round() is the class of known finding KF-1 (call site) and reported through its pinned witness only. " +
			"Non-trivial: the text was accepted by Compile and has >= 4 tokens; distinct by (text, mode, context kind).",
		Assume:        []string{"a panic whose value implements runtime.Error is never raised deliberately by the package", "known finding KF-1: round() yields a Go int"},
		MinNontrivial: tierN(40000, 1000000),
		Required:      []string{"accepted", "rejected", "outcome:value", "result:bool", "result:number", "result:string", "result:nodeset"},
		Families: []Family{
			witnessFamily("C15"),
			{Name: "tok", N: tierN(300000, 15000000), Run: c15Tok},
			{Name: "typed", N: tierN(80000, 4000000), Run: c15Typed},
			{Name: "regexargs", N: func(string) int { return len(c15Subjects) * len(c15Patterns) }, Run: c15RegexArgs},
		},
	})
}

func (c *Case) c15Exec(src string, d *xdoc.Doc, ctx *xdoc.Node) {
	if c.expensiveText(src, d) {
		return
	}
	ce, err := safeCompile(src)
	c.Rep.Evals++
	if err != nil || ce == nil {
		c.Count("rejected")
		return
	}
	c.Count("accepted")
	det := func(mode string, what string) map[string]interface{} {
		dd := docDetail(d, ctx)
		dd["expr"], dd["mode"], dd["observed"] = src, mode, what
		return dd
	}
	sel := c.RunSelect(ce, ctx)
	switch {
	case sel.Budget:
		c.Violation("NON-TERMINATION", det("Select", fmt.Sprintf("navigator-op budget of %d exhausted", OpLimit)))
		return
	case sel.Panic != nil && sel.Panic.Runtime:
		c.Violation("RUNTIME-ERROR", det("Select", sel.Panic.String()))
		return
	case sel.Panic != nil:
		c.Count("outcome:deliberate-abort")
	default:
		c.Count("outcome:value")
	}
	ev := c.RunEvaluate(ce, ctx)
	switch {
	case ev.Budget:
		c.Violation("NON-TERMINATION", det("Evaluate", fmt.Sprintf("navigator-op budget of %d exhausted", OpLimit)))
		return
	case ev.Panic != nil && ev.Panic.Runtime:
		c.Violation("RUNTIME-ERROR", det("Evaluate", ev.Panic.String()))
		return
	case ev.Panic != nil:
		c.Count("outcome:deliberate-abort")
	default:
		c.Count("outcome:value")
		switch ev.Kind {
		case "bool", "number", "string", "nodeset":
			c.Count("result:" + ev.Kind)
		default:
			if ev.GoType == "int" && topLevelRound(src) {
				// known finding KF-1 (call site: the round() helper returns a Go int): reported once through its pinned witness
				c.Count("known-finding-class:KF-1")
				break
			}
			c.Violation("UNDOCUMENTED-RESULT-TYPE", det("Evaluate", ev.Kind+" "+ev.GoType))
			return
		}
	}
	if strings.Count(src, " ")+strings.Count(src, "(")+strings.Count(src, "/") >= 3 {
		c.Nontrivial(fmt.Sprintf("%s|%v", src, ctx.Kind))
	}
}

func exoticDoc(g *xgen.G) *xdoc.Doc {
	switch g.Intn(6) {
	case 0:
		return g.DeepTree() // 10-33 levels: depth-indexed engine state
	case 1:
		return g.NameLikeTree(xgen.Names) // text whose data equals element names, reported as LocalName()
	}
	o := xgen.DefaultTree()
	o.MaxDepth, o.MaxFan = 3, 4
	o.TextVals = append(append([]string(nil), xgen.ExoticTextVals...), "é", "中文", "a\u00a0", "x\v", "\f")
	o.AttrVals = append(append([]string(nil), xgen.ExoticAttrVals...), "é", "[", "(", "a\u3000")
	return g.Tree(o)
}

// topLevelRound reports whether the value of src is the value of a round() call (possibly parenthesised).
func topLevelRound(src string) bool {
	ast, err := xref.Parse(src)
	if err != nil {
		return false
	}
	for {
		switch x := ast.(type) {
		case xref.Group:
			ast = x.X
			continue
		case xref.Neg:
			// an even run of minus signs cancels in the parser: --round(x) is round(x)
			if y, ok := x.X.(xref.Neg); ok {
				ast = y.X
				continue
			}
		case xref.Call:
			return x.Name == "round"
		}
		return false
	}
}

func c15Tok(c *Case) {
	if !c.Canary(500) {
		return
	}
	g := c.G()
	d := exoticDoc(c.GShared("doc", int64(c.Index/32)))
	ctx := d.Nodes[g.Intn(len(d.Nodes))]
	src := g.TokExpr(1+g.Intn(3), false)
	c.c15Exec(src, d, ctx)
	c.SampleEvery(9001, func() interface{} { return map[string]interface{}{"family": "tok", "expr": src, "ctx": ctx.Label()} })
}

// c15RegexArgs: matches()/replace() over EVERY combination of subject x pattern x replacement from pools of
// boundary shapes (empty, capture groups 0..11, '$' at the end / doubled / before a letter, back-slashes, patterns
// that do not compile), given as literals and taken from the document (where nothing is checked at compile time):
// whatever the data, the outcome is a value or a deliberate complaint, never a Go runtime error.
var c15Subjects = []string{"", "a", "ab", "abcabc", "aaa", "$1", "a$", "x y", "é中", "\\", "(a)", "1.5"}
var c15Patterns = []string{"", "a", "(a)", "(a)(b)", "(.)", "a*", "^", "$", "(a|b)*", "((a)(b)(c))", "(.)(.)(.)(.)(.)(.)(.)(.)(.)(.)(.)", "[a", "(", "\\", "a{2", "(?i)A", "é", "x|", "()", "(a)|(b)"}
var c15Templates = []string{"", "x", "$", "$$", "$1", "$1$", "x$", "$2", "$0", "$10", "$11", "$12$", "${1}", "${", "$a", "\\", "\\$", "$1\\", "$-", "$ ", "$1$2$3$4$5$6$7$8$9$10$11$"}

func c15RegexArgs(c *Case) {
	subj := c15Subjects[c.Index%len(c15Subjects)]
	pat := c15Patterns[c.Index/len(c15Subjects)]
	q := func(v string) string {
		if strings.Contains(v, "'") {
			return `"` + v + `"`
		}
		return "'" + v + "'"
	}
	d := xdoc.NewDoc()
	r := d.Root.AddElem("", "r", "")
	it := r.AddElem("", "i", "")
	it.AddAttr("", "s", "", subj)
	it.AddAttr("", "p", "", pat)
	it.AddText(subj)
	for k, t := range c15Templates {
		r.AddElem("", "t", "").AddAttr("", "v", "", t)
		_ = k
	}
	d.Finish()
	ctx := it
	forms := []string{
		"matches(" + q(subj) + ", " + q(pat) + ")", "matches(@s, @p)", "matches(., string(@p))", "//i[matches(@s, @p)]", "matches(@s, concat(@p, ''))",
	}
	for k, t := range c15Templates {
		forms = append(forms,
			"replace("+q(subj)+", "+q(pat)+", "+q(t)+")",
			fmt.Sprintf("replace(@s, @p, /r/t[%d]/@v)", k+1),
			fmt.Sprintf("replace(., %s, /r/t[%d]/@v)", q(pat), k+1),
			fmt.Sprintf("replace(@s, string(@p), %s)", q(t)),
		)
	}
	forms = append(forms, "//t[replace(../i/@s, ../i/@p, @v) = '']", "count(//t[matches(@v, ../i/@p)])")
	for _, src := range forms {
		c.c15Exec(src, d, ctx)
		if c.Violated() {
			return
		}
	}
	c.Count("regexargs")
	c.Nontrivial(fmt.Sprintf("regexargs|%q|%q", subj, pat))
	c.SampleEvery(23, func() interface{} {
		return map[string]interface{}{"family": "regexargs", "subject": subj, "pattern": pat, "templates": len(c15Templates), "expressions": len(forms)}
	})
}

// c15Typed: every function applied to every kind of argument, systematically (function x argument-kind grid).
func c15Typed(c *Case) {
	g := c.G()
	d := exoticDoc(c.GShared("doc", int64(c.Index/32)))
	ctx := d.Nodes[g.Intn(len(d.Nodes))]
	args := []string{"'a\u00a0'", "' x\u3000'", "'b\v'", "'é'", "'aé中'", "'abc'", "0.5", "0.25", "1", "'a'", "''", "true()", "a", "//b", "@id", "/", ".", "1 div 0", "0 div 0", "'[a'", "-1", "text()", "$v", "(a | b)", "a = b", "count(a)", "'$1'", "2.5", "string()", "position()", "last()", "..", "//@*", "reverse(a)", "1 = 1", "'1'"}
	fns := xgen.AllFuncs
	fn := fns[(c.Index/7)%len(fns)]
	n := g.Intn(5)
	var as []string
	for i := 0; i < n; i++ {
		as = append(as, args[g.Intn(len(args))])
	}
	src := fn + "(" + strings.Join(as, ", ") + ")"
	switch g.Intn(6) {
	case 0:
		src = "//*[" + src + "]"
	case 1:
		src = src + " " + g.Pick(xgen.BinOps...) + " " + args[g.Intn(len(args))]
	case 2:
		src = args[g.Intn(len(args))] + " " + g.Pick(xgen.BinOps...) + " " + src
	case 3:
		src = "(" + src + ")/" + g.Pick("a", "..", "@id", "text()", "following::b")
	case 4:
		src = "(" + src + ")[" + args[g.Intn(len(args))] + "]"
	}
	c.c15Exec(src, d, ctx)
	c.SampleEvery(9001, func() interface{} { return map[string]interface{}{"family": "typed", "expr": src, "ctx": ctx.Label()} })
}

// ---------------------------------------------------------------------------
// C17 - truncated or ill-formed expressions are rejected by Compile.
//
// The damage operators act on the reference TOKEN LIST of a valid expression, so that the
// damaged text is outside the grammar by construction; each damaged text is additionally
// given to the reference parser and used only if the reference rejects it too.

func init() {
	Register(&Monitor{
		ID:            "C17",
		Level:         "exploration",
		Rule:          "for generated valid expressions of every kind (accepted by Compile), every damage operator of the statement applied at EVERY applicable token position: truncation right after a binary operator, a slash that has a step to its right, '[', '(', an opening quote, a comma; deletion of exactly one closing ']', ')' or closing quote; a function renamed to an unknown name; all arguments removed from a function with a mandatory argument; an unknown axis name; malformed qualified names (p::a, :a, a:, a: b). A damaged text is used only if the reference parser/validator rejects it too. Non-trivial: every damaged text counts; distinct by damaged text.",
		Assume:        []string{"reference tokenizer/parser/validator internal/xref: a text it rejects is not an XPath 1.0 expression of the documented function library"},
		MinNontrivial: tierN(60000, 800000),
		Required:      []string{"damage:trunc-op", "damage:trunc-slash", "damage:trunc-[", "damage:trunc-(", "damage:trunc-quote", "damage:trunc-comma", "damage:del-]", "damage:del-)", "damage:del-quote", "damage:unknown-function", "damage:remove-args", "damage:unknown-axis", "damage:qname"},
		Families: []Family{
			witnessFamily("C17"),
			{Name: "damage", N: tierN(40000, 1000000), Run: c17Damage},
			{Name: "argdamage", N: func(string) int { return len(xref.FuncArity) }, Run: c17ArgDamage},
		},
	})
}

// mandatoryArg lists the functions that have at least one mandatory argument.
func mandatoryArg(name string) bool {
	ar, ok := xref.FuncArity[name]
	return ok && ar[0] >= 1
}

func c17Damage(c *Case) {
	g := c.G()
	d := valueDoc(c.GShared("doc", 0))
	env := &xgen.Env{Doc: d, Ctx: d.Root, Names: xgen.Names}
	e := anyExpr(g, env)
	toks := xref.Tokens(e)
	src := xref.Join(toks, "std", nil)
	if _, err := safeCompile(src); err != nil {
		c.Skip("valid expression rejected by Compile (the business of other properties)")
		return
	}
	try := func(class, dam string) bool {
		if dam == src || dam == "" {
			return true
		}
		if ast, perr := xref.Parse(dam); perr == nil && xref.Validate(ast) == nil {
			c.Skip("damaged text is still a valid expression for the reference")
			return true
		}
		ce, err := safeCompile(dam)
		c.Rep.Evals++
		c.Count("damage:" + class)
		c.Nontrivial(dam)
		if err == nil && ce != nil {
			c.Violation("DAMAGED-EXPRESSION-ACCEPTED", map[string]interface{}{"valid": src, "damaged": dam, "damage": class})
			return false
		}
		return true
	}
	wide := c.Index%2 == 1 // every other expression is damaged in its whitespace-rich spelling ("bogus :: b", "f ( )")
	join := func(ts []xref.Tok) string {
		if wide {
			return xref.Join(ts, "wide", c.G(7).R)
		}
		return xref.Join(ts, "std", nil)
	}
	for i, t := range toks {
		switch {
		case t.Op:
			if !try("trunc-op", join(toks[:i+1])) {
				return
			}
		case t.K == xref.TPunct && (t.S == "/" || t.S == "//"):
			// only a slash that has a step to its right and something to its left, or "//"
			if i+1 < len(toks) && (t.S == "//" || i > 0 && operandEndTok(toks[i-1])) {
				if !try("trunc-slash", join(toks[:i+1])) {
					return
				}
			}
		case t.K == xref.TPunct && t.S == "[":
			if !try("trunc-[", join(toks[:i+1])) {
				return
			}
		case t.K == xref.TPunct && t.S == "(":
			if !try("trunc-(", join(toks[:i+1])) {
				return
			}
		case t.K == xref.TPunct && t.S == ",":
			if !try("trunc-comma", join(toks[:i+1])) {
				return
			}
		case t.K == xref.TPunct && t.S == "]":
			if !try("del-]", join(append(append([]xref.Tok(nil), toks[:i]...), toks[i+1:]...))) {
				return
			}
		case t.K == xref.TPunct && t.S == ")":
			if !try("del-)", join(append(append([]xref.Tok(nil), toks[:i]...), toks[i+1:]...))) {
				return
			}
		case t.K == xref.TString:
			// cut right after the opening quote, and delete the closing quote
			pre := join(toks[:i])
			if pre != "" {
				pre += " "
			}
			if !try("trunc-quote", pre+t.S[:1]) {
				return
			}
			cp := append([]xref.Tok(nil), toks...)
			cp[i].S = t.S[:len(t.S)-1]
			if !try("del-quote", join(cp)) {
				return
			}
		case t.K == xref.TName && i+1 < len(toks) && toks[i+1].S == "(" && !t.Op:
			if _, isFn := xref.FuncArity[t.S]; isFn {
				cp := append([]xref.Tok(nil), toks...)
				cp[i].S = "nosuch-" + t.S
				if !try("unknown-function", join(cp)) {
					return
				}
				if mandatoryArg(t.S) {
					// remove everything between the parentheses
					depth, end := 0, -1
					for k := i + 1; k < len(toks); k++ {
						if toks[k].S == "(" && toks[k].K == xref.TPunct {
							depth++
						} else if toks[k].S == ")" && toks[k].K == xref.TPunct {
							depth--
							if depth == 0 {
								end = k
								break
							}
						}
					}
					if end > i+2 {
						cp2 := append(append([]xref.Tok(nil), toks[:i+2]...), toks[end:]...)
						if !try("remove-args", join(cp2)) {
							return
						}
						// remove trailing arguments one at a time (cut at each top-level comma) until fewer than the mandatory number remain
						depth = 0
						nargs := 1
						for k := i + 1; k < end; k++ {
							switch {
							case toks[k].K == xref.TPunct && (toks[k].S == "(" || toks[k].S == "["):
								depth++
							case toks[k].K == xref.TPunct && (toks[k].S == ")" || toks[k].S == "]"):
								depth--
							case toks[k].K == xref.TPunct && toks[k].S == "," && depth == 1:
								if nargs < xref.FuncArity[t.S][0] {
									cp3 := append(append([]xref.Tok(nil), toks[:k]...), toks[end:]...)
									if !try("remove-args", join(cp3)) {
										return
									}
								}
								nargs++
							}
						}
					}
				}
			}
		case t.K == xref.TName && i+1 < len(toks) && toks[i+1].S == "::":
			cp := append([]xref.Tok(nil), toks...)
			cp[i].S = g.Pick("sideways", "childs", "descendent", "attribute-or-self", "Child")
			if !try("unknown-axis", join(cp)) {
				return
			}
		case t.K == xref.TName && !t.Op && (i+1 >= len(toks) || toks[i+1].S != "("):
			// a name test: malformed qualified names
			for _, bad := range []string{"p::" + t.S, ":" + t.S, t.S + ":", t.S + ": b", "p:" + ":" + t.S, "p: " + t.S, "p :" + t.S, "p\t:" + t.S, "p : " + t.S} {
				if i > 0 && toks[i-1].S == "::" && strings.HasPrefix(bad, "p::") {
					continue
				}
				cp := append([]xref.Tok(nil), toks...)
				cp[i].S = bad
				if !try("qname", join(cp)) {
					return
				}
			}
		}
	}
	c.SampleEvery(1009, func() interface{} {
		return map[string]interface{}{"family": "damage", "valid": src, "tokens": len(toks), "example_damage": join(toks[:len(toks)/2+1])}
	})
}

func operandEndTok(t xref.Tok) bool {
	if t.K == xref.TNumber || t.K == xref.TString {
		return true
	}
	if t.K == xref.TName {
		return !t.Op
	}
	switch t.S {
	case ")", "]", ".", "..", "*":
		return !t.Op
	}
	return false
}

// c17ArgDamage: damage the builder (not the parser) has to report - a function renamed to an unknown name, a
// function robbed of its required arguments, an unknown axis name - placed in EVERY argument position of EVERY
// function of the library (arities min ... max, concat up to 5), plain and inside a predicate / a path / an operator.
// An error that is dropped for one optional argument of one function shows here and nowhere else.
var c17ArgDefaults = []string{"a", "'s'", "1", "@x", "string(b)"}
var c17ArgBroken = []struct{ class, valid, damaged string }{
	{"unknown-function", "count(b)", "nosuchfn(b)"},
	{"remove-args", "count(b)", "count()"},
	{"unknown-axis", "child::b", "chil::b"},
	{"unknown-function", "string(b/c)", "strin(b/c)"},
	{"remove-args", "contains(b, 'x')", "contains()"},
	{"unknown-axis", "b[ancestor::c]", "b[ancestr::c]"},
	{"unknown-function", "b[not(c)]", "b[nt(c)]"},
}

func c17ArgDamage(c *Case) {
	names := make([]string, 0, len(xref.FuncArity))
	for n := range xref.FuncArity {
		names = append(names, n)
	}
	sort.Strings(names)
	fn := names[c.Index]
	ar := xref.FuncArity[fn]
	maxN := ar[1]
	if maxN < 0 {
		maxN = 5
	}
	for n := ar[0]; n <= maxN; n++ {
		if n == 0 {
			continue
		}
		for pos := 0; pos < n; pos++ {
			for _, br := range c17ArgBroken {
				mk := func(arg string) string {
					args := make([]string, n)
					for i := range args {
						args[i] = c17ArgDefaults[(i+pos)%len(c17ArgDefaults)]
						if (fn == "matches" || fn == "replace") && i == 1 {
							args[i] = "'a+'"
						}
					}
					args[pos] = arg
					return fn + "(" + strings.Join(args, ", ") + ")"
				}
				for _, host := range []string{"%s", "//a[%s]", "(%s) = 1", "//a[b = %s]/c", "not(%s)", "concat('x', %s)"} {
					valid, dam := strings.ReplaceAll(host, "%s", mk(br.valid)), strings.ReplaceAll(host, "%s", mk(br.damaged))
					// the undamaged text must be an expression for the reference (and is normally one for the engine too)
					if ast, perr := xref.Parse(valid); perr != nil || xref.Validate(ast) != nil {
						continue
					}
					if ast, perr := xref.Parse(dam); perr == nil && xref.Validate(ast) == nil {
						c.Skip("the reference accepts the damaged text")
						continue
					}
					c.Rep.Evals++
					c.Count("damage:" + br.class)
					c.Count("argdamage")
					if ce, err := safeCompile(dam); err == nil && ce != nil {
						c.Violation("DAMAGED-EXPRESSION-ACCEPTED", map[string]interface{}{"valid": valid, "damaged": dam, "damage": br.class, "function": fn, "argument_position": pos + 1, "arguments": n})
						return
					}
					c.Nontrivial("argdamage|" + dam)
				}
			}
		}
	}
	c.Sample(map[string]interface{}{"family": "argdamage", "function": fn, "arities": ar})
}
