// Package xdoc is the harness-owned document model and the instrumented
// NodeNavigator through which the engine under observation sees documents.
//
// Node identity is a Go pointer (never the engine's hash); every navigator
// call is counted on a shared record, which is the logical clock used for
// budgets (non-termination) and evidence.
package xdoc

import (
	"fmt"
	"strings"
	"sync/atomic"

	"github.com/antchfx/xpath"
)

type Kind int

const (
	Root Kind = iota
	Element
	Attr
	Text
	Comment
)

func (k Kind) String() string {
	return [...]string{"root", "element", "attribute", "text", "comment"}[k]
}

type Node struct {
	Kind     Kind
	Name     string // local name (element/attribute)
	Prefix   string
	NS       string // namespace URI
	Data     string // text/comment/attribute value
	Parent   *Node
	Children []*Node
	Attrs    []*Node
	Idx      int // index in Parent.Children or Parent.Attrs
	Ord      int // document order number
	Doc      *Doc
}

type Doc struct {
	Root  *Node
	Nodes []*Node // document order
	HasNS bool    // navigators expose NamespaceURL()
	// DataAsName: LocalName() of a text or comment node returns its character data, as the navigators of
	// xmlquery and htmlquery do (there the "name" of a text node is its data). A name test must still select
	// only nodes of the principal node type of its axis.
	DataAsName bool
}

func NewDoc() *Doc {
	d := &Doc{}
	d.Root = &Node{Kind: Root, Doc: d}
	return d
}

func (n *Node) AddElem(prefix, name, ns string) *Node {
	c := &Node{Kind: Element, Name: name, Prefix: prefix, NS: ns, Parent: n, Idx: len(n.Children), Doc: n.Doc}
	n.Children = append(n.Children, c)
	return c
}

func (n *Node) AddText(s string) *Node {
	c := &Node{Kind: Text, Data: s, Parent: n, Idx: len(n.Children), Doc: n.Doc}
	n.Children = append(n.Children, c)
	return c
}

func (n *Node) AddComment(s string) *Node {
	c := &Node{Kind: Comment, Data: s, Parent: n, Idx: len(n.Children), Doc: n.Doc}
	n.Children = append(n.Children, c)
	return c
}

func (n *Node) AddAttr(prefix, name, ns, val string) *Node {
	c := &Node{Kind: Attr, Name: name, Prefix: prefix, NS: ns, Data: val, Parent: n, Idx: len(n.Attrs), Doc: n.Doc}
	n.Attrs = append(n.Attrs, c)
	return c
}

// Finish numbers the nodes in document order (attributes right after their owner).
func (d *Doc) Finish() *Doc {
	d.Nodes = d.Nodes[:0]
	var walk func(n *Node)
	walk = func(n *Node) {
		n.Ord = len(d.Nodes)
		d.Nodes = append(d.Nodes, n)
		for _, a := range n.Attrs {
			a.Ord = len(d.Nodes)
			d.Nodes = append(d.Nodes, a)
		}
		for _, c := range n.Children {
			walk(c)
		}
	}
	walk(d.Root)
	return d
}

// StringValue is the XPath string-value of the node.
func (n *Node) StringValue() string {
	switch n.Kind {
	case Attr, Text, Comment:
		return n.Data
	}
	var sb strings.Builder
	var walk func(n *Node)
	walk = func(n *Node) {
		for _, c := range n.Children {
			if c.Kind == Text {
				sb.WriteString(c.Data)
			} else if c.Kind == Element {
				walk(c)
			}
		}
	}
	walk(n)
	return sb.String()
}

func (n *Node) QName() string {
	if n.Prefix != "" {
		return n.Prefix + ":" + n.Name
	}
	return n.Name
}

func (n *Node) Label() string {
	if n == nil {
		return "<nil>"
	}
	switch n.Kind {
	case Root:
		return "#root"
	case Element:
		return fmt.Sprintf("<%s>#%d", n.QName(), n.Ord)
	case Attr:
		return fmt.Sprintf("@%s=%q#%d", n.QName(), n.Data, n.Ord)
	case Text:
		return fmt.Sprintf("text(%q)#%d", n.Data, n.Ord)
	case Comment:
		return fmt.Sprintf("comment(%q)#%d", n.Data, n.Ord)
	}
	return "?"
}

func Labels(ns []*Node) string {
	var s []string
	for _, n := range ns {
		s = append(s, n.Label())
	}
	return "[" + strings.Join(s, " ") + "]"
}

var xmlEsc = strings.NewReplacer("&", "&amp;", "<", "&lt;", ">", "&gt;", "\"", "&quot;", "\t", "&#9;", "\n", "&#10;", "\r", "&#13;")

// XML serialises the document in a form ParseXML reads back (namespace URIs are
// written as xmlns declarations on every element/attribute owner that uses them).
func (d *Doc) XML() string {
	var sb strings.Builder
	var walk func(n *Node, scope map[string]string)
	walk = func(n *Node, scope map[string]string) {
		switch n.Kind {
		case Root:
			for _, c := range n.Children {
				walk(c, scope)
			}
		case Element:
			sb.WriteString("<" + n.QName())
			sc := scope
			declare := func(prefix, ns string) {
				if sc[prefix] == ns {
					return
				}
				nsc := map[string]string{}
				for k, v := range sc {
					nsc[k] = v
				}
				nsc[prefix] = ns
				sc = nsc
				if prefix == "" {
					sb.WriteString(fmt.Sprintf(" xmlns=\"%s\"", xmlEsc.Replace(ns)))
				} else {
					sb.WriteString(fmt.Sprintf(" xmlns:%s=\"%s\"", prefix, xmlEsc.Replace(ns)))
				}
			}
			declare(n.Prefix, n.NS)
			for _, a := range n.Attrs {
				if a.Prefix != "" {
					declare(a.Prefix, a.NS)
				}
			}
			for _, a := range n.Attrs {
				sb.WriteString(fmt.Sprintf(" %s=\"%s\"", a.QName(), xmlEsc.Replace(a.Data)))
			}
			if len(n.Children) == 0 {
				sb.WriteString("/>")
				return
			}
			sb.WriteString(">")
			for _, c := range n.Children {
				walk(c, sc)
			}
			sb.WriteString("</" + n.QName() + ">")
		case Text:
			sb.WriteString(xmlEsc.Replace(n.Data))
		case Comment:
			sb.WriteString("<!--" + n.Data + "-->")
		}
	}
	walk(d.Root, map[string]string{})
	return sb.String()
}

// ---------------------------------------------------------------------------
// Instrumentation record shared by all navigator copies of one evaluation.

// Budget is the sentinel panic value raised when the navigator-operation budget
// of an evaluation is exhausted (decides non-termination on a logical clock).
type Budget struct{ Ops int64 }

func (b Budget) Error() string {
	return fmt.Sprintf("xdoc: navigator op budget exhausted after %d ops", b.Ops)
}

// Rec is the per-evaluation record. All fields are updated atomically so that
// the monitor's own state never races when navigators are used concurrently.
type Rec struct {
	Ops    int64          // navigator calls so far
	Limit  int64          // 0 = unlimited
	Yield  func(op int64) // optional hook invoked at every navigator call (suspension point)
	Copies int64
}

func (r *Rec) tick() {
	if r == nil {
		return
	}
	n := atomic.AddInt64(&r.Ops, 1)
	if r.Limit > 0 && n > r.Limit {
		panic(Budget{Ops: n})
	}
	if r.Yield != nil {
		r.Yield(n)
	}
}

// Nav is the harness NodeNavigator (no namespace URI exposed).
type Nav struct {
	D   *Doc
	Cur *Node
	R   *Rec
}

// NavNS is a Nav that additionally exposes NamespaceURL, like xmlquery does.
type NavNS struct{ Nav }

func (n *NavNS) NamespaceURL() string { n.R.tick(); return n.Cur.NS }
func (n *NavNS) Copy() xpath.NodeNavigator {
	n.R.tick()
	c := *n
	return &c
}
func (n *NavNS) MoveTo(o xpath.NodeNavigator) bool {
	n.R.tick()
	on, ok := o.(*NavNS)
	if !ok || on == nil || on.D != n.D {
		return false
	}
	n.Cur = on.Cur
	return true
}

// NewNav returns a navigator positioned on n; rec may be nil.
func NewNav(n *Node, rec *Rec) xpath.NodeNavigator {
	if n.Doc.HasNS {
		return &NavNS{Nav{D: n.Doc, Cur: n, R: rec}}
	}
	return &Nav{D: n.Doc, Cur: n, R: rec}
}

// NodeOf returns the node a harness navigator is positioned on (nil for foreign navigators).
func NodeOf(nv xpath.NodeNavigator) *Node {
	switch x := nv.(type) {
	case *Nav:
		if x == nil {
			return nil
		}
		return x.Cur
	case *NavNS:
		if x == nil {
			return nil
		}
		return x.Cur
	case *NavNoMove:
		if x == nil {
			return nil
		}
		return x.Cur
	case *NavAnyMove:
		if x == nil {
			return nil
		}
		return x.Cur
	}
	return nil
}

func (n *Nav) NodeType() xpath.NodeType {
	n.R.tick()
	switch n.Cur.Kind {
	case Root:
		return xpath.RootNode
	case Element:
		return xpath.ElementNode
	case Attr:
		return xpath.AttributeNode
	case Text:
		return xpath.TextNode
	case Comment:
		return xpath.CommentNode
	}
	panic("xdoc: bad kind")
}
func (n *Nav) LocalName() string {
	n.R.tick()
	if n.D.DataAsName && (n.Cur.Kind == Text || n.Cur.Kind == Comment) {
		return n.Cur.Data
	}
	return n.Cur.Name
}
func (n *Nav) Prefix() string    { n.R.tick(); return n.Cur.Prefix }
func (n *Nav) Value() string     { n.R.tick(); return n.Cur.StringValue() }
func (n *Nav) Copy() xpath.NodeNavigator {
	n.R.tick()
	c := *n
	return &c
}
func (n *Nav) MoveToRoot() { n.R.tick(); n.Cur = n.D.Root }
func (n *Nav) MoveToParent() bool {
	n.R.tick()
	if n.Cur.Parent == nil {
		return false
	}
	n.Cur = n.Cur.Parent
	return true
}
func (n *Nav) MoveToNextAttribute() bool {
	n.R.tick()
	switch n.Cur.Kind {
	case Element:
		if len(n.Cur.Attrs) == 0 {
			return false
		}
		n.Cur = n.Cur.Attrs[0]
		return true
	case Attr:
		p := n.Cur.Parent
		if n.Cur.Idx+1 >= len(p.Attrs) {
			return false
		}
		n.Cur = p.Attrs[n.Cur.Idx+1]
		return true
	}
	return false
}
func (n *Nav) MoveToChild() bool {
	n.R.tick()
	if n.Cur.Kind == Attr || len(n.Cur.Children) == 0 {
		return false
	}
	n.Cur = n.Cur.Children[0]
	return true
}
func (n *Nav) MoveToFirst() bool {
	n.R.tick()
	if n.Cur.Kind == Attr || n.Cur.Parent == nil || n.Cur.Idx == 0 {
		return false
	}
	n.Cur = n.Cur.Parent.Children[0]
	return true
}
func (n *Nav) MoveToNext() bool {
	n.R.tick()
	if n.Cur.Kind == Attr || n.Cur.Parent == nil {
		return false
	}
	p := n.Cur.Parent
	if n.Cur.Idx+1 >= len(p.Children) {
		return false
	}
	n.Cur = p.Children[n.Cur.Idx+1]
	return true
}
func (n *Nav) MoveToPrevious() bool {
	n.R.tick()
	if n.Cur.Kind == Attr || n.Cur.Parent == nil || n.Cur.Idx == 0 {
		return false
	}
	n.Cur = n.Cur.Parent.Children[n.Cur.Idx-1]
	return true
}
func (n *Nav) MoveTo(o xpath.NodeNavigator) bool {
	n.R.tick()
	on, ok := o.(*Nav)
	if !ok || on == nil || on.D != n.D {
		return false
	}
	n.Cur = on.Cur
	return true
}

// NavNoMove is a navigator whose MoveTo always fails (the interface allows that: MoveTo reports
// whether it moved). Callers of the engine that use such navigators rely on NodeIterator falling back to a copy.
type NavNoMove struct{ Nav }

func (n *NavNoMove) Copy() xpath.NodeNavigator {
	n.R.tick()
	c := *n
	return &c
}
func (n *NavNoMove) MoveTo(o xpath.NodeNavigator) bool { n.R.tick(); return false }

func NewNavNoMove(n *Node, rec *Rec) xpath.NodeNavigator {
	return &NavNoMove{Nav{D: n.Doc, Cur: n, R: rec}}
}

// NavAnyMove is a navigator whose MoveTo takes over the position of ANY navigator of its own type, also
// one positioned in another document ("moves to the same position as the specified NodeNavigator" - the
// interface does not promise a document check).
type NavAnyMove struct{ Nav }

func (n *NavAnyMove) Copy() xpath.NodeNavigator {
	n.R.tick()
	c := *n
	return &c
}
func (n *NavAnyMove) MoveTo(o xpath.NodeNavigator) bool {
	n.R.tick()
	on, ok := o.(*NavAnyMove)
	if !ok || on == nil {
		return false
	}
	n.D, n.Cur = on.D, on.Cur
	return true
}

func NewNavAnyMove(n *Node, rec *Rec) xpath.NodeNavigator {
	return &NavAnyMove{Nav{D: n.Doc, Cur: n, R: rec}}
}
