package xdoc

import (
	"fmt"
	"strings"
)

// ParseXML reads the small XML subset written by Doc.XML: elements, attributes,
// text, comments, prefixes, xmlns declarations (in scope for descendants) and the
// entities &amp; &lt; &gt; &quot; &#N;. It exists so that pinned witnesses
// (known findings, regression cases, replays) can carry their document as text.
func ParseXML(src string, hasNS bool) (*Doc, error) {
	d := NewDoc()
	d.HasNS = hasNS
	p := &xmlParser{s: src}
	if err := p.content(d.Root, map[string]string{}); err != nil {
		return nil, err
	}
	if p.i < len(p.s) {
		return nil, fmt.Errorf("xdoc: trailing input at %d", p.i)
	}
	d.Finish()
	return d, nil
}

func MustParseXML(src string, hasNS bool) *Doc {
	d, err := ParseXML(src, hasNS)
	if err != nil {
		panic(err)
	}
	return d
}

type xmlParser struct {
	s string
	i int
}

var xmlUnesc = strings.NewReplacer("&amp;", "&", "&lt;", "<", "&gt;", ">", "&quot;", "\"", "&#9;", "\t", "&#10;", "\n", "&#13;", "\r")

func splitQName(q string) (prefix, local string) {
	if k := strings.IndexByte(q, ':'); k >= 0 {
		return q[:k], q[k+1:]
	}
	return "", q
}

func (p *xmlParser) content(parent *Node, scope map[string]string) error {
	for p.i < len(p.s) {
		switch {
		case strings.HasPrefix(p.s[p.i:], "</"):
			return nil
		case strings.HasPrefix(p.s[p.i:], "<!--"):
			end := strings.Index(p.s[p.i+4:], "-->")
			if end < 0 {
				return fmt.Errorf("xdoc: unclosed comment")
			}
			parent.AddComment(p.s[p.i+4 : p.i+4+end])
			p.i += 4 + end + 3
		case p.s[p.i] == '<':
			if err := p.element(parent, scope); err != nil {
				return err
			}
		default:
			end := strings.IndexByte(p.s[p.i:], '<')
			if end < 0 {
				end = len(p.s) - p.i
			}
			parent.AddText(xmlUnesc.Replace(p.s[p.i : p.i+end]))
			p.i += end
		}
	}
	return nil
}

func (p *xmlParser) name() string {
	st := p.i
	for p.i < len(p.s) && !strings.ContainsRune(" \t\n\r=/>", rune(p.s[p.i])) {
		p.i++
	}
	return p.s[st:p.i]
}

func (p *xmlParser) ws() {
	for p.i < len(p.s) && strings.ContainsRune(" \t\n\r", rune(p.s[p.i])) {
		p.i++
	}
}

func (p *xmlParser) element(parent *Node, scope map[string]string) error {
	p.i++ // <
	qn := p.name()
	type av struct{ q, v string }
	var attrs []av
	sc := scope
	copied := false
	for {
		p.ws()
		if p.i >= len(p.s) {
			return fmt.Errorf("xdoc: unclosed tag %s", qn)
		}
		if p.s[p.i] == '/' || p.s[p.i] == '>' {
			break
		}
		an := p.name()
		if p.i+1 >= len(p.s) || p.s[p.i] != '=' || p.s[p.i+1] != '"' {
			return fmt.Errorf("xdoc: bad attribute %s", an)
		}
		p.i += 2
		end := strings.IndexByte(p.s[p.i:], '"')
		if end < 0 {
			return fmt.Errorf("xdoc: unclosed attribute value")
		}
		val := xmlUnesc.Replace(p.s[p.i : p.i+end])
		p.i += end + 1
		if an == "xmlns" || strings.HasPrefix(an, "xmlns:") {
			if !copied {
				sc = map[string]string{}
				for k, v := range scope {
					sc[k] = v
				}
				copied = true
			}
			sc[strings.TrimPrefix(strings.TrimPrefix(an, "xmlns"), ":")] = val
			continue
		}
		attrs = append(attrs, av{an, val})
	}
	prefix, local := splitQName(qn)
	e := parent.AddElem(prefix, local, sc[prefix])
	for _, a := range attrs {
		ap, al := splitQName(a.q)
		ns := ""
		if ap != "" {
			ns = sc[ap]
		}
		e.AddAttr(ap, al, ns, a.v)
	}
	if p.s[p.i] == '/' {
		p.i += 2
		return nil
	}
	p.i++ // >
	if err := p.content(e, sc); err != nil {
		return err
	}
	closing := "</" + qn + ">"
	if !strings.HasPrefix(p.s[p.i:], closing) {
		return fmt.Errorf("xdoc: expected %s at %d", closing, p.i)
	}
	p.i += len(closing)
	return nil
}
