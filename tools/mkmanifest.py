#!/usr/bin/env python3
"""Writes /verif/MANIFEST.json (kept as a script so that the 17 entries stay consistent)."""
import json, subprocess
hook_commit = subprocess.check_output(["git","-C","/repo","log","--format=%h","--grep=^verif:"]).decode().split()
P = {
 "C01": ("reference-model monitor: set(Select/Evaluate delivery) vs independent XPath 1.0 evaluator, exhaustive over axis pairs/tests/separators and all small tree shapes", "3 C01",
         "Every predicate-free 1- and 2-step path (all 144 axis pairs x node tests x {/,//} x {abs,rel}, explicit and abbreviated; thorough: all 1728 axis triples) is executed by the real engine from EVERY node of every ordered tree shape with <= 4 (thorough 5) elements and of seeded random trees, plus random 1-5 step paths; an online oracle compares the set of delivered nodes (Select, and the iterator returned by Evaluate) with the denotation computed by an independent reference evaluator. Exhaustive within the stated bounds, sampled beyond; All public entry points (Expr.Select, Evaluate, package Select, MustCompile, CompileWithNS(nil), a hand-driven iterator) and a navigator whose MoveTo adopts any position must deliver the same set; a scale family runs every axis from 9 contexts of a document with 1100 siblings / attributes / nesting levels. This is the right level because the property quantifies over small finite dimensions (axes, tests) crossed with unbounded ones (trees)."),
 "C02": ("reference-model monitor on predicate paths + predicate-alone evaluation; exhaustive step-axis x predicate-axis matrix; data-directed literals, cursor-hostile and/or operands", "3 C02",
         "Exhaustive 12x12 matrix step-axis::t[pred-axis::t] (plain, not(), below //) from every node of all small tree shapes, exhaustive 12x12 matrix of two-step predicate paths on all shapes with <= 5 elements, plus seeded random predicate paths (nesting <= 2) on documents where candidates share ancestors/siblings; engine result sets are compared with the reference, and the predicate is also evaluated alone on a candidate. A scale family evaluates ~400 generated predicate forms on documents with 300 and 1100 siblings / attributes / nesting levels. Exploration: detects state leaking between candidates on the executions produced."),
 "C03": ("reference-model monitor over an exhaustive grid of positional forms x step prefixes on wide documents with many parents of different fan-out", "3 C03",
         "Grid of every positional predicate form on child steps under 9 prefixes (incl. //, */, descendant::*/, ancestor-or-self::*/) with optional trailing boolean predicate, and (flat)[n] / (//t)[n], from every node of wide documents; plus random positional paths. Compared as sets with the reference (proximity position per parent). A scale family runs every stated positional form with n in {1..1101 around 2^k and 10^k boundaries} on sibling lists of 300 and 1100 nodes, compared as sequences."),
 "C04": ("metamorphic history monitor: every observation on a used *Expr vs the same operation on a fresh Compile (full sequences, scalar values and types, abort classes)", "3 C04",
         "Histories of 2-12 Select/Evaluate operations on one compiled expression over a pool of documents, with partial consumption and iterators left open and resumed later; after every step the digest of the used expression is compared with a fresh compile. A fifth of the histories uses a navigator whose MoveTo adopts positions in other documents; operations that exhaust the op budget are reported. Exploration over histories; no reference needed."),
 "C05": ("Go race detector on stress rounds sharing *Expr between goroutines + per-operation comparison with solo results", "3 C05",
         "Race-detector build of the worker runs rounds of 2-16 goroutines x 5-20 operations on 1-3 shared compiled expressions (Select drained/abandoned, Evaluate, Compile, regexp functions) with seeded yields at navigator calls; every DATA RACE block mentioning package xpath, every result differing from its solo digest and every fatal error is a violation. Evidence counts overlapping operation pairs on the same *Expr and distinct interleavings; sampled schedules, not enumerated."),
 "C06": ("process-level totality monitor: result-shape assertions on Compile/CompileWithNS/MustCompile, crash attribution to the announced case, CPU watchdog; nesting every recursive grammar construct to 10^k", "3 C06",
         "Every recursive construct of the grammar nested to depth 10..4*10^5 (thorough 3*10^6), every iterative construct to length 10^6 (thorough 3*10^6), all byte truncations of generated expressions, 200k (thorough 8M) random token/byte strings, every function x 0-3 arguments over 9 argument kinds, long inputs ending in multi-byte/invalid UTF-8 at every offset; every ordered pair of 9 recursive wrappers alternated to depth 6..1000, the smallest inputs (empty, white space, every single byte); each through the three entry points with nil/empty/bound/odd-keyed maps. What is returned with a nil error (and what MustCompile returns for a rejected input) is evaluated on a 7-node document: a Go runtime error there means the expression is not usable. A worker that dies (stack exhaustion) is attributed to the announced input."),
 "C07": ("reference-model monitor over the exhaustive operand-type matrix with data-directed literals; short-circuit observed through an aborting right operand; every case as Evaluate and as predicate", "3 C07",
         "Operator x operand-type matrix within the stated combinations, literals drawn from the values present in the compared node-set, and/or over all 4x4 type pairs with known truth values and an aborting right operand, cursor-moving left operands; neighbouring doubles under all six operators; node-set comparisons over 300/1100 nodes; compared exactly with the reference, both as top-level Evaluate and inside a Select predicate."),
 "C08": ("reference-model monitor: exact float64 identity (NaN=NaN, +0=-0) on exhaustive lexical/operand grids and random arithmetic trees", "3 C08",
         "Exhaustive grids (literal forms, number() string classes with padding, 28x28 operands x 4 operators incl. NaN/Infinity, mod 0..20 x 1..9, floor/ceiling, string() of values < 10^6) and seeded random trees of depth <= 4 over documents; sums, counts and arithmetic over 300/1100 nodes; engine float64 must be identical to the reference."),
 "C09": ("reference-model monitor with an exhaustive substring(string,start,length) sweep and all pairs/triples of a 14-string alphabet", "3 C09",
         "Exhaustive sweep of substring over 14 strings x starts -3..len+3 step 0.5 x lengths absent/-2..len+4 step 0.5/100 (+ NaN/Infinity), every other function over all pairs of the alphabet, every function on pairs containing each printable ASCII character, subjects of 100-5000 characters with multi-byte characters at the cut points, string-values of 7 KB assembled from 1100 text nodes; random nestings to depth 4 with node-set arguments; exact equality with the reference."),
 "C10": ("parse-tree monitor through the verif hook vs an independent reference parser, exhaustive over operator chains; whitespace and abbreviation metamorphic pairs (tree and value)", "3 C10",
         "All operator chains of length <= 4 over the 14 binary operators (41370 sequences x 3 operand/unary-minus variants; quintuples sampled, exhaustive in thorough) parsed by the real parser (hook) and by the reference parser; the VALUE of all 30940 chains of length <= 4 over 13 operators with distinct numeric operands vs the reference (needs no hook); every chain and generated expression re-tokenised with no/conventional/maximal whitespace; every abbreviation expanded position by position; the value of unparenthesised chains of 20-400 operators mixing all precedence levels."),
 "C11": ("reference-model monitor on the delivery multiset of unions; directed identity-collision search over all node pairs of hostile-name documents", "3 C11",
         "For every pair of distinct nodes of hostile-name documents the union of their two address paths must deliver exactly 2 nodes; random unions (nested, overlapping, sequence form) compared as multisets with the reference set union; node pairs whose sibling position / attribute index / depth differ by 255, 256, 257, 512, 65536 on documents with 300, 1100 and 66000 siblings."),
 "C12": ("sequence monitor for flat paths vs reference document order + engine-vs-engine iterator protocol relations (Evaluate/Select, count, reverse, extra MoveNext, Current, copied navigators)", "3 C12",
         "Flat paths on wide/deep documents: the delivery sequence must equal the reference node-set in document order; for node-set expressions of every generator the iterator is driven by hand: Evaluate sequence = Select sequence, count() = length, reverse() = reversed, 1-5 extra MoveNext stay false, Current() on the reported node, copied navigators not moved; reverse() results are node-set expressions too; flat paths over 300/1100 siblings and attributes in sequence; a navigator whose MoveTo always fails."),
 "C13": ("metamorphic monitors (absolute from every start node; relative = addr(n)/relative; P[true()], (P), P|P, not(not(P))) with the left side checked against the reference", "3 C13",
         "For generated paths of the C01/C02 fragments: absolute paths selected from every node vs from the root; relative paths at every node vs composed absolute paths; wrapping identities; left sides also compared with the reference so that a fault breaking both sides is seen; absolute paths from start nodes 1000 levels deep / 700 siblings in."),
 "C14": ("reference-model monitor under the three namespace configurations (no map / map + URI navigator / missing prefix) and both navigator kinds; name functions", "3 C14",
         "Namespace documents (0-3 URIs, several prefixes per URI, default namespace, prefixed attributes) x maps (nil, {}, as document, other prefixes, rebinding, arbitrary) x name tests on all axes; compile errors for unbound prefixes; name()/local-name()/namespace-uri() with and without argument; an expression without prefixes selects the same under any map; a document with 1100 namespaces under a map with 2200 entries."),
 "C15": ("panic-classifying monitor (runtime.Error vs deliberate error) + navigator-op budget for termination + result-type assertion on token-level generated expressions", "3 C15",
         "Token-level expression texts ignoring typing (31 functions x 0-4 args, 13 axes, variables, all operators, filters on non-node-sets) and a function x argument-kind grid; every text Compile accepts is run through Select and Evaluate from all kinds of context nodes; a recovered runtime.Error, an exhausted op budget or an undocumented result type is a violation (round() at top level is the recorded finding KF-1, by call site)."),
 "C16": ("differential monitor vs Go regexp + per-event cache monitors with harness-controlled load() (barriers, scripted failures), observer goroutine on the stats hook, race detector", "3 C16",
         "Regex grammar x subjects x templates vs Go's regexp through Evaluate, also with patterns/templates taken from the document; EVERY key sequence of length <= 6 over 4 keys x 5 capacities x 4 failure scripts sequentially; concurrent histories of 2-16 goroutines with load() blocking in the unlocked miss window; swapped RegexpCache (custom, case-folding and refusing loaders); capacities 64..65536 with three times as many keys (long common prefixes, case twins) sequentially and from 8 goroutines; -race build."),
 "C17": ("rejection monitor over token-level damage operators applied at every position of generated valid expressions, filtered by the reference parser", "3 C17",
         "Every damage class of the statement applied at every applicable token position of generated valid expressions (about 17 damaged texts per expression); also in the whitespace-rich spelling; a damaged text the reference parser/validator also rejects must be rejected by Compile."),
}
checks = []
for pid in sorted(P):
    tech, ref, text = P[pid]
    race = pid in ("C05", "C16")
    checks.append({
        "property_id": pid,
        "quick_cmd": f"./check {pid} quick",
        "thorough_cmd": f"./check {pid} thorough",
        "evidence_file": f"/verif/evidence/{pid}.json",
        "replay_cmd_template": f"./check {pid} --replay {{path}}",
        "engine": "xpv-race" if race else "xpv",
        "level_claimed": {"category": "exploration", "text": text, "design_ref": "DESIGN.md section " + ref},
        "level_note": "Trusted base: the reference evaluator/parser internal/xref (264 hand-derived conformance vectors, algebraic laws and round trips checked by setup_cmd), the harness navigator internal/xdoc (xmlquery cursor semantics), the Go runtime" + (" and race detector" if race else "") + ". Held = held on the executions produced (counts in the evidence file), not a proof.",
        "technique": tech,
    })
m = {
 "version": 1,
 "setup_cmd": "./setup.sh",
 "hooks": {
   "guard": "verif",
   "enable": "go build -tags verif (the harness module replaces github.com/antchfx/xpath by /repo, so every check rebuilds from /repo's working tree)",
   "baseline_off_cmd": "cd /repo && GOFLAGS=-mod=mod GOPROXY=off GOSUMDB=off go test -json -vet=off -count=1 -timeout 25m ./...",
   "source_commits": hook_commit,
   "add_only": True,
 },
 "engines": [
   {"name": "xpv", "path": "/verif/cmd/xpv", "serves_properties": [p for p in sorted(P) if p not in ("C05","C16")], "kind_free_text": "driver + worker processes executing seeded/exhaustive case lists against the real engine through an instrumented NodeNavigator; online oracles (reference model, metamorphic, invariant hooks)"},
   {"name": "xpv-race", "path": "/verif/cmd/xpv", "serves_properties": ["C05","C16"], "kind_free_text": "the same binary built with the Go race detector (-race); race reports are read from the detector's log after every round"},
 ],
 "checks": checks,
 "not_applicable": [],
 "notes": "Technique family: runtime monitoring and sanitizers. Exit codes of every check: 0 held on everything explored, 1 violation (VIOLATION line + replay file), 2 inconclusive (INCONCLUSIVE line). Fault injection: every 8th case of the sequential value monitors first runs evaluations that abort half-way (recovered), C04/C05/C06/C15 re-make a fixed list of canary calls whose results must not depend on earlier calls. Known findings: /verif/known_findings.json (KF-1 for C15, KF-2 for C02; 'fixed' entries are regression witnesses). VERIF_SEED selects the seeded part of every workload; exhaustive parts do not depend on it.",
}
json.dump(m, open("/verif/MANIFEST.json", "w"), indent=1)
print("wrote MANIFEST.json with", len(checks), "checks")
