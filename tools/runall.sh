#!/bin/bash
# tools/runall.sh [quick|thorough] [seed...] : runs every check, prints one line each
cd "$(dirname "$0")/.." || exit 1
TIER="${1:-quick}"; shift
SEEDS="${*:-1}"
rc=0
for s in $SEEDS; do
  for id in C01 C02 C03 C04 C05 C06 C07 C08 C09 C10 C11 C12 C13 C14 C15 C16 C17; do
    out=$(VERIF_SEED=$s ./check $id $TIER 2>&1); code=$?
    echo "seed=$s exit=$code $(echo "$out" | tail -1)"
    if [ $code -ne 0 ]; then rc=1; echo "$out" | grep -v "^KNOWN-FINDING" | head -5; fi
  done
done
exit $rc
