#!/bin/bash
# tools/trymut.sh <name> <patch.diff> <demo_test.go|-> [check ids...]
# Applies a candidate breaking change to a SCRATCH worktree of /repo (never to /repo itself), confirms that
# it compiles, passes the pinned suite, and that its demonstration fails with it / passes without it, then
# runs the given checks (default: all) against the scratch tree. The scratch tree and outputs are removed afterwards.
cd "$(dirname "$0")/.." || exit 1
export GOFLAGS=-mod=mod GOPROXY=off GOSUMDB=off GOTOOLCHAIN=local
NAME="$1"; PATCH="$(readlink -f "$2")"; DEMO="$3"; shift 3
[ "$DEMO" != "-" ] && DEMO="$(readlink -f "$DEMO")"
IDS="${*:-C01 C02 C03 C04 C05 C06 C07 C08 C09 C10 C11 C12 C13 C14 C15 C16 C17}"
WT="/tmp/mt-$NAME"; OUT="/tmp/mt-$NAME-out"
git -C /repo worktree remove --force "$WT" 2>/dev/null; rm -rf "$WT" "$OUT"
git -C /repo worktree add -q "$WT" HEAD || exit 2
SUF="$(echo "$WT" | cksum | cut -d' ' -f1)"
cleanup() { git -C /repo worktree remove --force "$WT" 2>/dev/null; rm -rf "$WT" "$OUT" "/verif/work/alt-$SUF.mod" "/verif/bin/xpv-$SUF" "/verif/bin/xpv-race-$SUF" "/verif/work/build-$SUF.log" "/verif/work/build-race-$SUF.log" /tmp/mt-$NAME.*.log 2>/dev/null; }
trap cleanup EXIT
RACEFLAG=""
[ "$DEMO" != "-" ] && grep -qi "race" "$DEMO" && RACEFLAG="-race"
if [ "$DEMO" != "-" ]; then
  T=$(grep -o 'func Test[A-Za-z0-9_]*' "$DEMO" | head -1 | sed 's/func //')
  cp "$DEMO" "$WT/zz_demo_test.go"
  if ! (cd "$WT" && go test -vet=off -count=1 $RACEFLAG -run "^$T\$" . >/tmp/mt-$NAME.clean.log 2>&1); then
    echo "RESULT $NAME: demo FAILS on the clean tree -> unusable"; tail -5 /tmp/mt-$NAME.clean.log; exit 3
  fi
  rm -f "$WT/zz_demo_test.go"
fi
if ! git -C "$WT" apply "$PATCH"; then echo "RESULT $NAME: patch does not apply"; exit 3; fi
if ! (cd "$WT" && go build ./... && go build -tags verif ./...) >/tmp/mt-$NAME.build.log 2>&1; then echo "RESULT $NAME: does not compile"; tail -5 /tmp/mt-$NAME.build.log; exit 3; fi
if ! (cd "$WT" && go test -vet=off -count=1 ./... >/tmp/mt-$NAME.suite.log 2>&1); then echo "RESULT $NAME: existing suite FAILS -> unusable"; tail -8 /tmp/mt-$NAME.suite.log; exit 3; fi
if [ "$DEMO" != "-" ]; then
  cp "$DEMO" "$WT/zz_demo_test.go"
  if (cd "$WT" && go test -vet=off -count=3 $RACEFLAG -run "^$T\$" . >/tmp/mt-$NAME.demo.log 2>&1); then
    echo "RESULT $NAME: demo PASSES with the change -> does not demonstrate"; exit 3
  fi
  rm -f "$WT/zz_demo_test.go"
fi
echo "confirmed $NAME: compiles, suite passes, demo fails with the change and passes without"
caught=""
for id in $IDS; do
  out=$(VERIF_REPO="$WT" VERIF_OUT="$OUT" timeout 3000 ./check $id ${TIER:-quick} 2>&1); code=$?
  echo "  $id exit=$code $(echo "$out" | tail -1 | cut -c1-160)"
  [ $code -eq 1 ] && caught="$caught $id" && echo "$out" | grep VIOLATION | head -2 | sed 's/^/      /' && python3 - "$OUT" $id <<'PY'
import json,glob,sys
fs=sorted(glob.glob(sys.argv[1]+'/replays/'+sys.argv[2]+'-*.json'))[:2]
for f in fs:
    r=json.load(open(f)); d=r['detail']
    print('      ',r['family'],r['index'],r['kind'],'|',{k:(str(v)[:140]) for k,v in d.items() if k not in ('doc','log_tail','report','history')})
PY
done
echo "RESULT $NAME: caught by:${caught:- NONE}"
