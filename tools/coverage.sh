#!/bin/bash
# Maintenance aid (not a registered check): statement coverage of the engine reached by the quick
# workloads of all 17 monitors, to find engine code no monitor drives.  Output: work/cover/func.txt,
# work/cover/uncovered.txt
cd "$(dirname "$0")/.." || exit 2
export GOFLAGS=-mod=mod GOPROXY=off GOSUMDB=off GOTOOLCHAIN=local VERIF_ROOT="$(pwd)"
OUT=$(mktemp -d /var/tmp/xpv-cover.XXXXXX)
trap 'rm -rf "$OUT"' EXIT
mkdir -p work/cover
go build -tags verif -cover -coverpkg=verif/cmd/xpv,github.com/antchfx/xpath -o "$OUT/xpv-cov" ./cmd/xpv || exit 2
IDS="${@:-C01 C02 C03 C04 C05 C06 C07 C08 C09 C10 C11 C12 C13 C14 C15 C16 C17}"
for id in $IDS; do
  mkdir -p "$OUT/cov/$id"
  GOCOVERDIR="$OUT/cov/$id" VERIF_OUT="$OUT/out" "$OUT/xpv-cov" run "$id" -tier "${VERIF_TIER:-quick}" > "$OUT/$id.log" 2>&1
  echo "$id exit=$?"
done
dirs=$(ls -d "$OUT"/cov/* | paste -sd,)
go tool covdata textfmt -i="$dirs" -pkg=github.com/antchfx/xpath -o work/cover/profile.txt
go tool cover -func=work/cover/profile.txt > work/cover/func.txt
tail -1 work/cover/func.txt
# uncovered blocks, merged per file:line
awk -F'[: ,]' 'NR>1 && $NF==0 {print $1":"$2}' work/cover/profile.txt | sed 's#github.com/antchfx/xpath/##' | sort -t: -k1,1 -k2,2n -u > work/cover/uncovered.txt
wc -l work/cover/uncovered.txt
