#!/bin/bash
# tools/regress_seeded.sh [dir-glob]: re-applies every kept breaking change in seeded/ to a scratch worktree
# and runs the quick check of the property it breaks (then, only if that one stays silent, the checks recorded
# in its meta.json).  One line per change; exit 1 if a change is no longer caught by anything.
cd "$(dirname "$0")/.." || exit 1
LOGS=$(mktemp -d /var/tmp/xpv-regress.XXXXXX)
rc=0
for d in seeded/${1:-*}/; do
  id=$(basename "$d")
  [ -f "$d/patch.diff" ] || continue
  prop=$(python3 -c "import json;print(json.load(open('$d/meta.json'))['breaks_property'])")
  others=$(python3 -c "import json;print(' '.join(x for x in json.load(open('$d/meta.json')).get('caught_by_quick_checks',[]) if x!='$prop'))")
  tools/trymut.sh "rg-$id" "$d/patch.diff" - $prop > "$LOGS/$id.log" 2>&1
  res=$(grep "^RESULT" "$LOGS/$id.log" | sed 's/.*caught by://')
  if ! grep -q "^RESULT.*caught by: *C" "$LOGS/$id.log" && [ -n "$others" ]; then
    tools/trymut.sh "rg-$id" "$d/patch.diff" - $others > "$LOGS/$id.2.log" 2>&1
    res="(own check silent) $(grep "^RESULT" "$LOGS/$id.2.log" | sed 's/.*caught by://')"
  fi
  echo "$id breaks=$prop caught_by=$res"
  case "$res" in *C[0-9][0-9]*) ;; *) rc=1; tail -3 "$LOGS/$id.log";; esac
done
rm -rf "$LOGS"
exit $rc
