#!/bin/bash
# tools/regress_seeded.sh [dir-glob] : re-applies every kept breaking change in seeded/ to a scratch worktree and
# runs the quick check of the property it breaks (then, only if that one stays silent, the checks recorded in its
# meta.json). One line per change (JOBS at a time, default 4); exit 1 if a change is no longer caught by anything.
cd "$(dirname "$0")/.." || exit 1
export LOGS=$(mktemp -d /var/tmp/xpv-regress.XXXXXX)
one() {
  d="seeded/$1"; id="$1"
  [ -f "$d/patch.diff" ] || exit 0
  if grep -q '"superseded_by_fix"' "$d/meta.json"; then echo "$id superseded by a later fix in /repo (see its meta.json): skipped"; exit 0; fi
  prop=$(python3 -c "import json;print(json.load(open('$d/meta.json'))['breaks_property'])")
  others=$(python3 -c "import json;print(' '.join(x for x in json.load(open('$d/meta.json')).get('caught_by_quick_checks',[]) if x!='$prop'))")
  tools/trymut.sh "rg-$id" "$d/patch.diff" - $prop > "$LOGS/$id.log" 2>&1
  res=$(grep "^RESULT" "$LOGS/$id.log" | sed 's/.*caught by://')
  if ! grep -q "^RESULT.*caught by: *C" "$LOGS/$id.log" && [ -n "$others" ]; then
    tools/trymut.sh "rg-$id" "$d/patch.diff" - $others > "$LOGS/$id.2.log" 2>&1
    res="(own check silent) $(grep "^RESULT" "$LOGS/$id.2.log" | sed 's/.*caught by://')"
  fi
  if grep -q "^RESULT.*\(does not apply\|does not compile\|unusable\|does not demonstrate\)" "$LOGS/$id.log"; then
    echo "$id breaks=$prop UNUSABLE-ON-THIS-HEAD $(grep "^RESULT" "$LOGS/$id.log" | cut -c1-160)"
    exit 0
  fi
  case "$res" in *\ C[0-9][0-9]*) echo "$id breaks=$prop caught_by=$res";; *) echo "$id breaks=$prop NOT-CAUGHT $res $(tail -2 "$LOGS/$id.log" | tr '\n' ' ' | cut -c1-200)";; esac
}
export -f one
ls -d seeded/${1:-*}/ | xargs -n1 basename | xargs -P "${JOBS:-4}" -I{} bash -c 'one {}'
rm -rf "$LOGS"
