#!/bin/bash
# Builds the framework offline from files on disk and validates the trusted base (reference
# evaluator/parser conformance vectors, algebraic laws, round trips) independently of the engine.
cd "$(dirname "$0")" || exit 1
export GOFLAGS=-mod=mod GOPROXY=off GOSUMDB=off GOTOOLCHAIN=local
set -e
mkdir -p bin work evidence replays
go build -tags verif -o bin/xpv ./cmd/xpv
go build -race -tags verif -o bin/xpv-race ./cmd/xpv
go vet -tags verif ./...
go test -tags verif -count=1 ./internal/...
./bin/xpv list
echo "setup ok"
