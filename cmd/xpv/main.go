// Command xpv is both the driver (shards a property's case lists over worker
// processes, merges their reports, writes evidence and replay files, prints the
// verdict lines) and the worker (executes announced cases against the engine).
package main

import (
	"encoding/json"
	"flag"
	"fmt"
	"os"
	"os/exec"
	"path/filepath"
	"runtime"
	"runtime/debug"
	"sort"
	"strconv"
	"strings"
	"sync"
	"sync/atomic"
	"syscall"
	"time"

	"verif/internal/mon"
)

const (
	exitHeld         = 0
	exitViolation    = 1
	exitInconclusive = 2
)

func main() {
	if len(os.Args) < 2 {
		usage()
	}
	switch os.Args[1] {
	case "run":
		os.Exit(runDriver(os.Args[2:]))
	case "worker":
		os.Exit(runWorker(os.Args[2:]))
	case "replay":
		os.Exit(runReplay(os.Args[2:]))
	case "witnesses":
		// run every pinned witness verbosely (maintenance aid)
		ids := make([]string, 0, len(mon.Registry))
		for id := range mon.Registry {
			ids = append(ids, id)
		}
		sort.Strings(ids)
		for _, id := range ids {
			for _, fam := range mon.Registry[id].Families {
				if fam.Name != "witness" {
					continue
				}
				for i := 0; i < fam.N("quick"); i++ {
					rep := mon.NewReport()
					fmt.Printf("%s witness %d\n", id, i)
					fam.Run(&mon.Case{Prop: id, Family: "witness", Index: i, Seed: 1, Tier: "quick", Rep: rep, Replay: true})
				}
			}
		}
	case "list":
		ids := make([]string, 0, len(mon.Registry))
		for id := range mon.Registry {
			ids = append(ids, id)
		}
		sort.Strings(ids)
		for _, id := range ids {
			m := mon.Registry[id]
			fmt.Printf("%s level=%s race=%v families=%d\n", id, m.Level, m.Race, len(m.Families))
		}
	default:
		usage()
	}
}

func usage() {
	fmt.Fprintln(os.Stderr, "usage: xpv run <ID> [-tier quick|thorough] [-seed N] | xpv replay <ID> <file> | xpv list")
	os.Exit(exitInconclusive)
}

func verifRoot() string {
	if r := os.Getenv("VERIF_ROOT"); r != "" {
		return r
	}
	return "/verif"
}

// ---------------------------------------------------------------------------
// worker

type workerResult struct {
	Report       *mon.Report `json:"report"`
	StoppedEarly bool        `json:"stopped_early"`
	Done         bool        `json:"done"`
}

var caseStartCPU int64    // process CPU nanoseconds when the current case started (0 = idle)
var familyCPUBudget int64 // per-case CPU budget (s) of the family being executed (0 = the default)

func cpuNanos() int64 {
	var ru syscall.Rusage
	syscall.Getrusage(syscall.RUSAGE_SELF, &ru)
	return ru.Utime.Nano() + ru.Stime.Nano()
}

func runWorker(args []string) int {
	fs := flag.NewFlagSet("worker", flag.ExitOnError)
	tier := fs.String("tier", "quick", "")
	seed := fs.Int64("seed", 1, "")
	shard := fs.Int("shard", 0, "")
	nshards := fs.Int("nshards", 1, "")
	out := fs.String("out", "", "")
	ann := fs.String("announce", "", "")
	skip := fs.String("skip", "", "comma separated family:index cases to skip (blamed for a crash earlier)")
	cpuBudget := fs.Int("cpu-budget", 150, "CPU seconds one case may use before it is reported as non-terminating")
	id := args[0]
	fs.Parse(args[1:])
	m := mon.Registry[id]
	if m == nil {
		fmt.Fprintln(os.Stderr, "unknown property", id)
		return exitInconclusive
	}
	// Unbounded recursion must surface as a (fatal) stack overflow at moderate depth instead of
	// consuming gigabytes first; legitimate, depth-limited recursion needs far less than this.
	debug.SetMaxStack(64 << 20)
	skipSet := map[string]bool{}
	for _, s := range strings.Split(*skip, ",") {
		if s != "" {
			skipSet[s] = true
		}
	}
	af, err := os.OpenFile(*ann, os.O_CREATE|os.O_WRONLY|os.O_TRUNC, 0o644)
	if err != nil {
		fmt.Fprintln(os.Stderr, err)
		return exitInconclusive
	}
	announce := func(s string) {
		line := fmt.Sprintf("%-120s\n", s)
		af.WriteAt([]byte(line), 0)
	}
	// CPU watchdog: decides non-termination of code that never calls the navigator (Compile).
	// It also detects a case that is BLOCKED (deadlock: a lock never released, a barrier never passed):
	// the case has been running for more than 90 s and the whole process used less than 100 ms of CPU in
	// the last 60 s. The deciding quantity is the absence of CPU consumption, not the elapsed time: a
	// runnable case on a loaded machine still consumes CPU whenever it is scheduled.
	go func() {
		type sample struct {
			t   time.Time
			cpu int64
		}
		var ring []sample
		var curStart int64
		var startWall time.Time
		for {
			time.Sleep(200 * time.Millisecond)
			st := atomic.LoadInt64(&caseStartCPU)
			if st == 0 {
				ring, curStart = nil, 0
				continue
			}
			now, cpu := time.Now(), cpuNanos()
			if st != curStart {
				curStart, startWall, ring = st, now, nil
			}
			budget := int64(*cpuBudget)
			if fb := atomic.LoadInt64(&familyCPUBudget); fb > 0 {
				budget = fb
			}
			if os.Getenv("VERIF_SELFTEST") == "harnesshang" {
				budget = 3
			}
			if cpu-st > budget*int64(time.Second) {
				// where is the time going? A stack without a frame of the engine means the harness itself (a
				// generator, the reference) does not terminate: that is an error of the check, not of the engine.
				buf := make([]byte, 1<<20)
				stacks := string(buf[:runtime.Stack(buf, true)])
				os.Stderr.WriteString("CPU budget of one case used up; goroutines:\n" + stacks)
				if !strings.Contains(stacks, "github.com/antchfx/xpath.") {
					af.WriteAt([]byte("HARNESSHANG "), 121)
					os.Exit(5)
				}
				af.WriteAt([]byte("CPUHANG "), 121)
				os.Exit(3)
			}
			ring = append(ring, sample{now, cpu})
			for len(ring) > 0 && now.Sub(ring[0].t) > 60*time.Second {
				if now.Sub(startWall) > 90*time.Second && cpu-ring[0].cpu < int64(100*time.Millisecond) {
					af.WriteAt([]byte("BLOCKED "), 121)
					buf := make([]byte, 1<<20)
					os.Stderr.Write(buf[:runtime.Stack(buf, true)])
					os.Exit(4)
				}
				ring = ring[1:]
			}
		}
	}()
	rep := mon.NewReport()
	res := workerResult{Report: rep}
	write := func() {
		rep.Finish()
		b, _ := json.Marshal(res)
		tmp := *out + ".tmp"
		os.WriteFile(tmp, b, 0o644)
		os.Rename(tmp, *out)
	}
	var flushed int64
	for _, fam := range m.Families {
		n := fam.N(*tier)
		atomic.StoreInt64(&familyCPUBudget, int64(fam.CPUBudget))
		for idx := *shard; idx < n; idx += *nshards {
			key := fam.Name + ":" + strconv.Itoa(idx)
			if skipSet[key] {
				continue
			}
			announce(key)
			atomic.StoreInt64(&caseStartCPU, cpuNanos()|1)
			c := &mon.Case{Prop: id, Family: fam.Name, Index: idx, Seed: *seed, Tier: *tier, Rep: rep}
			rep.Cases++
			if !m.Race && m.ID != "C06" && m.ID != "C17" {
				c.InjectAborts() // fault injection: abandoned (panicking) evaluations between the cases
			}
			func() {
				defer func() {
					if x := recover(); x != nil {
						buf := make([]byte, 8192)
						rep.Harness = append(rep.Harness, fmt.Sprintf("%s: harness panic: %v\n%s", key, x, buf[:runtime.Stack(buf, false)]))
					}
				}()
				if os.Getenv("VERIF_SELFTEST") == "harnesshang" && idx == 0 && fam.Name != "witness" {
					for x := 1; x != 0; x += 2 { // self-test of the watchdog's attribution: the harness spins outside the engine
					}
				}
				fam.Run(c)
			}()
			atomic.StoreInt64(&caseStartCPU, 0)
			if rep.NViol > flushed {
				flushed = rep.NViol
				write() // keep what was found even if a later case kills the process
			}
			if mon.BudgetHits.Load() >= 3 && rep.NViol == 0 {
				rep.Harness = append(rep.Harness, fmt.Sprintf("%s: three evaluations exhausted the navigator-op budget of %d and the monitor reported none of them (last case %s)", id, mon.OpLimit, key))
			}
			if rep.NViol >= 10 || len(rep.Harness) >= 3 || rep.Counters["nonterminating_evaluations"] >= 3 || mon.BudgetHits.Load() >= 3 {
				res.StoppedEarly = true
				write()
				return 0
			}
		}
	}
	announce("done")
	res.Done = true
	write()
	return 0
}

// ---------------------------------------------------------------------------
// driver

type evidence struct {
	PropertyID  string                 `json:"property_id"`
	Tier        string                 `json:"tier"`
	Seed        int64                  `json:"seed"`
	Level       string                 `json:"level"`
	Coverage    map[string]interface{} `json:"coverage"`
	Assumptions []string               `json:"assumptions"`
	WallS       float64                `json:"wall_s"`
	Violations  int                    `json:"violations"`
	Verdict     string                 `json:"verdict"`
	Notes       []string               `json:"notes,omitempty"`
}

func envInt(name string, def int64) int64 {
	if v := os.Getenv(name); v != "" {
		if n, err := strconv.ParseInt(v, 10, 64); err == nil {
			return n
		}
	}
	return def
}

func runDriver(args []string) int {
	if len(args) < 1 {
		usage()
	}
	id := args[0]
	fs := flag.NewFlagSet("run", flag.ExitOnError)
	tierDef := os.Getenv("VERIF_TIER")
	if tierDef != "quick" && tierDef != "thorough" {
		tierDef = "quick"
	}
	tier := fs.String("tier", tierDef, "")
	seed := fs.Int64("seed", envInt("VERIF_SEED", 1), "")
	workers := fs.Int("workers", runtime.NumCPU(), "")
	worker := fs.String("worker-bin", os.Args[0], "binary to run workers with (the -race build for race monitors)")
	fs.Parse(args[1:])
	m := mon.Registry[id]
	if m == nil {
		fmt.Printf("INCONCLUSIVE property=%s unknown property\n", id)
		return exitInconclusive
	}
	start := time.Now()
	root := verifRoot()
	if o := os.Getenv("VERIF_OUT"); o != "" {
		root = o // scratch output root (evidence, work, replays) for runs against a scratch copy of the repository
	}
	work := filepath.Join(root, "work", id)
	os.RemoveAll(work)
	os.MkdirAll(work, 0o755)
	os.MkdirAll(filepath.Join(root, "evidence"), 0o755)
	evPath := filepath.Join(root, "evidence", id+".json")
	os.Remove(evPath)
	if old, _ := filepath.Glob(filepath.Join(root, "replays", id+"-*.json")); len(old) > 0 {
		for _, f := range old {
			os.Remove(f) // replays of an earlier run of this property
		}
	}

	total := mon.NewReport()
	var notes []string
	var mu sync.Mutex
	inconclusive := false
	note := func(s string, inc bool) {
		mu.Lock()
		notes = append(notes, s)
		if inc {
			inconclusive = true
		}
		mu.Unlock()
	}
	timeout := 40 * time.Minute
	if *tier == "thorough" {
		timeout = 4 * time.Hour
	}
	nshards := *workers
	var wg sync.WaitGroup
	for sh := 0; sh < nshards; sh++ {
		wg.Add(1)
		go func(sh int) {
			defer wg.Done()
			var skips []string
			for attempt := 0; attempt < 4; attempt++ {
				outF := filepath.Join(work, fmt.Sprintf("result-%d.json", sh))
				annF := filepath.Join(work, fmt.Sprintf("announce-%d", sh))
				logF := filepath.Join(work, fmt.Sprintf("log-%d-%d.txt", sh, attempt))
				os.Remove(outF)
				cmd := exec.Command(*worker, "worker", id, "-tier", *tier, "-seed", fmt.Sprint(*seed), "-shard", fmt.Sprint(sh),
					"-nshards", fmt.Sprint(nshards), "-out", outF, "-announce", annF, "-skip", strings.Join(skips, ","))
				lf, _ := os.Create(logF)
				cmd.Stdout, cmd.Stderr = lf, lf
				cmd.Env = append(os.Environ(), "GORACE=halt_on_error=0 log_path="+filepath.Join(work, fmt.Sprintf("race-%d-%d", sh, attempt)))
				if err := cmd.Start(); err != nil {
					lf.Close()
					note(fmt.Sprintf("worker %d could not start: %v", sh, err), true)
					return
				}
				done := make(chan error, 1)
				go func() { done <- cmd.Wait() }()
				var werr error
				select {
				case werr = <-done:
				case <-time.After(timeout):
					cmd.Process.Signal(syscall.SIGQUIT)
					time.Sleep(2 * time.Second)
					cmd.Process.Kill()
					<-done
					lf.Close()
					note(fmt.Sprintf("worker %d hit the wall-clock watchdog (%v): inconclusive", sh, timeout), true)
					return
				}
				lf.Close()
				b, rerr := os.ReadFile(outF)
				if ee, ok := werr.(*exec.ExitError); ok && ee.ExitCode() == 66 {
					werr = nil // the race detector's exit status after it reported races; the worker itself finished and wrote its result
				}
				if werr == nil && rerr == nil {
					var wr workerResult
					if json.Unmarshal(b, &wr) == nil && wr.Report != nil {
						mu.Lock()
						total.Merge(wr.Report)
						if wr.StoppedEarly {
							notes = append(notes, fmt.Sprintf("worker %d stopped early after %d violations", sh, wr.Report.NViol))
						}
						mu.Unlock()
						return
					}
				}
				// the worker died: blame the last announced case
				ab, _ := os.ReadFile(annF)
				last := strings.TrimSpace(string(ab))
				if strings.Contains(last, "HARNESSHANG") {
					if k := strings.IndexByte(last, ' '); k > 0 {
						last = last[:k]
					}
					note(fmt.Sprintf("harness error: case %s used up its CPU budget outside the engine (no engine frame on any stack): %s", last, tail(logF, 25)), true)
					skips = append(skips, last)
					continue
				}
				cpuHang := strings.Contains(last, "CPUHANG")
				blocked := strings.Contains(last, "BLOCKED")
				if k := strings.IndexByte(last, ' '); k > 0 {
					last = last[:k]
				}
				logTail := tail(logF, 60)
				if last == "" || last == "done" || !strings.Contains(last, ":") {
					note(fmt.Sprintf("worker %d died outside a case (%v): %s", sh, werr, logTail), true)
					return
				}
				fam, idxs, _ := strings.Cut(last, ":")
				idx, _ := strconv.Atoi(idxs)
				kind := "CRASH"
				if cpuHang {
					kind = "NONTERM-CPU"
				}
				if blocked {
					kind = "BLOCKED-NO-PROGRESS"
				}
				mu.Lock()
				total.NViol++
				total.Violations = append(total.Violations, mon.Violation{Property: id, Family: fam, Index: idx, Kind: kind,
					Detail: map[string]interface{}{"worker_exit": fmt.Sprint(werr), "log_tail": logTail}})
				mu.Unlock()
				skips = append(skips, last)
			}
			note(fmt.Sprintf("worker %d kept dying; shard abandoned after 4 attempts", sh), false)
		}(sh)
	}
	wg.Wait()
	if m.Post != nil {
		m.Post(total, work, *tier)
	}
	total.Finish()

	// verdict
	if len(total.Harness) > 0 {
		inconclusive = true
		for i, h := range total.Harness {
			if i < 3 {
				notes = append(notes, "harness error: "+h)
			}
		}
	}
	distinct := total.Distinct()
	if m.MinNontrivial != nil && distinct < m.MinNontrivial(*tier) && total.NViol == 0 {
		inconclusive = true
		notes = append(notes, fmt.Sprintf("only %d distinct non-trivial cases (floor %d): observed too little", distinct, m.MinNontrivial(*tier)))
	}
	for _, r := range m.Required {
		if total.Counters[r] == 0 && total.NViol == 0 {
			inconclusive = true
			notes = append(notes, "mechanism never reached: "+r)
		}
	}
	verdict := "held"
	code := exitHeld
	os.MkdirAll(filepath.Join(root, "replays"), 0o755)
	// known findings are reported, not alarmed
	known := 0
	var real []mon.Violation
	for _, v := range total.Violations {
		if v.Kind == "KNOWN-FINDING" {
			fmt.Printf("KNOWN-FINDING: property=%s %v\n", id, v.Detail["what"])
			known++
			continue
		}
		real = append(real, v)
	}
	nreal := int(total.NViol) - known
	if nreal > 0 {
		verdict, code = "violated", exitViolation
		seen := map[string]bool{}
		for _, v := range real {
			p := filepath.Join(root, "replays", fmt.Sprintf("%s-%s-%d.json", id, v.Family, v.Index))
			if seen[p] {
				continue
			}
			seen[p] = true
			b, _ := json.MarshalIndent(map[string]interface{}{"property": id, "family": v.Family, "index": v.Index, "seed": *seed, "tier": *tier, "kind": v.Kind, "detail": v.Detail}, "", " ")
			os.WriteFile(p, b, 0o644)
			fmt.Printf("VIOLATION property=%s replay=%s\n", id, p)
		}
	} else if inconclusive {
		verdict, code = "inconclusive", exitInconclusive
		fmt.Printf("INCONCLUSIVE property=%s %s\n", id, strings.Join(notes, "; "))
	}
	samples := total.Samples
	if len(samples) == 0 {
		samples = []interface{}{"(no sample recorded)"}
	}
	cov := map[string]interface{}{
		"evaluations":         total.Evals,
		"distinct_nontrivial": distinct,
		"rule":                m.Rule,
		"samples":             samples,
		"cases":               total.Cases,
		"counters":            total.Counters,
		"skipped":             total.Skipped,
		"navigator_ops":       total.NavOps,
		"max_ops_one_eval":    total.MaxOps,
		"op_budget":           mon.OpLimit,
		"workers":             nshards,
		"known_findings":      known,
		"exhaustive_families": m.Exhaustive,
	}
	ev := evidence{PropertyID: id, Tier: *tier, Seed: *seed, Level: m.Level, Coverage: cov, Assumptions: m.Assume,
		WallS: time.Since(start).Seconds(), Violations: nreal, Verdict: verdict, Notes: notes}
	b, _ := json.MarshalIndent(ev, "", " ")
	os.WriteFile(evPath, b, 0o644)
	fmt.Printf("%s %s tier=%s seed=%d cases=%d evaluations=%d distinct_nontrivial=%d violations=%d known=%d wall=%.1fs\n",
		id, verdict, *tier, *seed, total.Cases, total.Evals, distinct, nreal, known, time.Since(start).Seconds())
	return code
}

func tail(path string, n int) string {
	b, err := os.ReadFile(path)
	if err != nil {
		return ""
	}
	lines := strings.Split(strings.TrimRight(string(b), "\n"), "\n")
	if len(lines) > n {
		// keep the head (the fatal error message) and the tail
		lines = append(lines[:n/2], lines[len(lines)-n/2:]...)
	}
	s := strings.Join(lines, "\n")
	if len(s) > 6000 {
		s = s[:6000]
	}
	return s
}

// ---------------------------------------------------------------------------
// replay

func runReplay(args []string) int {
	if len(args) < 2 {
		usage()
	}
	id, path := args[0], args[1]
	m := mon.Registry[id]
	if m == nil {
		fmt.Println("unknown property", id)
		return exitInconclusive
	}
	b, err := os.ReadFile(path)
	if err != nil {
		fmt.Println(err)
		return exitInconclusive
	}
	var r struct {
		Family string `json:"family"`
		Index  int    `json:"index"`
		Seed   int64  `json:"seed"`
		Tier   string `json:"tier"`
	}
	if err := json.Unmarshal(b, &r); err != nil {
		fmt.Println(err)
		return exitInconclusive
	}
	for _, fam := range m.Families {
		if fam.Name != r.Family {
			continue
		}
		rep := mon.NewReport()
		c := &mon.Case{Prop: id, Family: r.Family, Index: r.Index, Seed: r.Seed, Tier: r.Tier, Rep: rep, Replay: true}
		fmt.Printf("replaying %s %s:%d seed=%d tier=%s\n", id, r.Family, r.Index, r.Seed, r.Tier)
		fam.Run(c)
		if rep.NViol > 0 {
			for _, v := range rep.Violations {
				if v.Kind != "KNOWN-FINDING" {
					fmt.Printf("VIOLATION property=%s replay=%s\n", id, path)
					return exitViolation
				}
			}
		}
		fmt.Println("no violation on replay")
		return exitHeld
	}
	fmt.Println("unknown family", r.Family)
	return exitInconclusive
}
